package main

import (
	"reflect"

	"github.com/jotaen/klog/klog/parser"
)

func init() {
	handlers["parse"] = hParse
}

// parse: {text, workers: [n...]}: serial parse, and for every requested worker
// count a parallel parse whose full projection is compared with the serial one.
func hParse(c M) M {
	text := symToBytes(str(c, "text"))
	o := projectParse(parser.NewSerialParser(), text)
	par := []M{}
	for _, w := range list(c, "workers") {
		n := num(M{"n": w}, "n")
		p := projectParse(parser.NewParallelParser(n), text)
		eq := reflect.DeepEqual(normalise(p), normalise(o))
		pm := M{"n": n, "equal": eq}
		if !eq {
			pm["result"] = p
		}
		par = append(par, pm)
	}
	o["par"] = par
	return o
}

// normalise round-trips through JSON so that typed slices compare structurally.
func normalise(v any) any {
	var out any
	if err := jsonUnmarshal(encode(v), &out); err != nil {
		panic(err)
	}
	return out
}
