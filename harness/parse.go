package main

import (
	"os"
	"path/filepath"
	"reflect"
	"time"

	"github.com/jotaen/klog/klog/app"
	tf "github.com/jotaen/klog/klog/app/cli/terminalformat"
	"github.com/jotaen/klog/klog/parser"
)

func init() {
	handlers["parse"] = hParse
}

// parse: {text, workers: [n...]}: serial parse, and for every requested worker
// count a parallel parse whose full projection is compared with the serial one.
func hParse(c M) M {
	text := symToBytes(str(c, "text"))
	o := projectParse(parser.NewSerialParser(), text)
	par := []M{}
	for _, w := range list(c, "workers") {
		n := num(M{"n": w}, "n")
		p := projectParse(parser.NewParallelParser(n), text)
		eq := reflect.DeepEqual(normalise(p), normalise(o))
		pm := M{"n": n, "equal": eq}
		if !eq {
			pm["result"] = p
		}
		par = append(par, pm)
	}
	o["par"] = par
	if boolean(c, "channels") {
		dir, err := os.MkdirTemp("", "kdrive")
		if err != nil {
			panic(err)
		}
		defer os.RemoveAll(dir)
		home := filepath.Join(dir, "home")
		os.Mkdir(home, 0755)
		file := filepath.Join(dir, "f.klg")
		os.WriteFile(file, []byte(text), 0644)
		fakeNow = time.Date(2020, 1, 1, 12, 0, 0, 0, caseLoc)
		app.VerifNow = func() time.Time { return fakeNow }
		channels(o, home, app.NewDefaultConfig(tf.COLOUR_THEME_NO_COLOUR), dir, file, text)
	}
	return o
}

// normalise round-trips through JSON so that typed slices compare structurally.
func normalise(v any) any {
	var out any
	if err := jsonUnmarshal(encode(v), &out); err != nil {
		panic(err)
	}
	return out
}
