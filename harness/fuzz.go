package main

import (
	"encoding/json"
	"hash/fnv"
	"os"
	"path/filepath"
	"reflect"
	"strconv"
	"time"

	"github.com/jotaen/klog/klog/app"
	tf "github.com/jotaen/klog/klog/app/cli/terminalformat"
	"github.com/jotaen/klog/klog/app/cli/util"
	kmain "github.com/jotaen/klog/klog/app/main"
	"github.com/jotaen/klog/klog/parser"
	kjson "github.com/jotaen/klog/klog/parser/json"
)

func init() {
	handlers["fuzz"] = hFuzz
}

var readOnlyCmds = [][]string{
	{"print", "--no-style"},
	{"print", "--with-totals"},
	{"print", "--sort", "desc"},
	{"total", "--diff"},
	{"total", "--decimal"},
	{"report"},
	{"report", "--aggregate", "week", "--fill", "--diff"},
	{"report", "--aggregate", "month", "--chart"},
	{"report", "--aggregate", "quarter", "--decimal"},
	{"report", "--aggregate", "year", "--fill"},
	{"tags", "--values", "--count"},
	{"today", "--diff"},
	{"json"},
	{"json", "--pretty"},
	{"today", "--diff", "--now"},
	{"today", "--now", "--decimal"},
	{"total", "--now", "--diff"},
	{"report", "--now", "--diff", "--fill"},
	{"report", "--aggregate", "day", "--chart", "--decimal", "--now"},
	{"tags", "--now"},
	{"json", "--now"},
	{"print", "--with-totals", "--sort", "asc", "--no-style"},
	{"total", "--today", "--now"},
	{"total", "--period", "2020-01", "--diff"},
	{"print", "--tag", "a", "--with-totals"},
}

// runReadOnly writes text to a temporary file and runs every read-only command on it.
func runReadOnly(text string, cmds [][]string, now time.Time, cpus int) []M {
	dir, err := os.MkdirTemp("", "kdrive")
	if err != nil {
		panic(err)
	}
	defer os.RemoveAll(dir)
	home := filepath.Join(dir, "home")
	os.Mkdir(home, 0755)
	file := filepath.Join(dir, "f.klg")
	if err := os.WriteFile(file, []byte(text), 0644); err != nil {
		panic(err)
	}
	fakeNow = now
	app.VerifNow = func() time.Time { return fakeNow }
	if cpus < 1 {
		cpus = 1
	}
	config, cErr := app.NewConfig(app.FromDeterminedValues{NumCpus: cpus}, app.FromEnvVars{GetVar: func(string) string { return "" }},
		app.FromConfigFile{FileContents: "colour_scheme = dark\n"})
	if cErr != nil {
		panic(cErr.Error())
	}
	res := []M{}
	for _, args := range cmds {
		full := append(append([]string{}, args...), file)
		var code int
		var runErr error
		var pmsg string
		out := captureStdout(func() {
			pmsg = try(func() {
				code, runErr = kmain.Run(app.NewFileOrPanic(home), app.Meta{}, config, full)
			})
		})
		m := M{"args": args, "code": code, "out_len": len(out), "panic": pmsg, "err_len": 0}
		if runErr != nil {
			m["err_len"] = len(runErr.Error())
		}
		res = append(res, m)
	}
	return res
}

// fuzz: {text}: everything klog can do with a file content, recorded for totality.
func hFuzz(c M) M {
	text := symToBytes(str(c, "text"))
	serial := parser.NewSerialParser()
	o := projectParse(serial, text)
	par := []M{}
	for _, n := range []int{2, 3, len(text) + 1} {
		p := projectParse(parser.NewParallelParser(n), text)
		eq := reflect.DeepEqual(normalise(p), normalise(o))
		pm := M{"n": n, "equal": eq}
		if !eq {
			pm["result"] = p
		}
		par = append(par, pm)
	}
	o["par"] = par
	o["cmds"] = []M{}
	o["render_panic"] = ""
	o["json_valid"] = true
	if o["ok"] == true {
		cmds := readOnlyCmds
		if n, _ := strconv.Atoi(os.Getenv("KDRIVE_NCMDS")); n > 0 && n < len(cmds) && !boolean(c, "all") {
			// a rotating subset, chosen by the text
			h := fnv.New32a()
			h.Write([]byte(text))
			start := int(h.Sum32() % uint32(len(cmds)))
			sel := [][]string{}
			for j := 0; j < n; j++ {
				sel = append(sel, cmds[(start+j*5)%len(cmds)])
			}
			cmds = sel
		}
		now := time.Date(2020, 1, 1, 12, 0, 0, 0, caseLoc)
		if n := str(c, "now"); n != "" {
			now = parseNow(n)
		}
		o["cmds"] = runReadOnly(text, cmds, now, num(c, "cpus"))
	} else {
		// a rejected text: the commands must refuse it as well (on several CPUs they parse in parallel);
		// done for the cases that name a number of CPUs
		if num(c, "cpus") > 0 {
			o["cmds"] = runReadOnly(text, [][]string{{"total"}, {"print", "--no-style"}, {"json"}}, time.Date(2020, 1, 1, 12, 0, 0, 0, caseLoc), num(c, "cpus"))
		}
		_, _, errs := serial.Parse(text)
		o["render_panic"] = try(func() {
			msg := util.PrettifyParsingError(app.NewParserErrors(errs), tf.NewStyler(tf.COLOUR_THEME_DARK)).Error()
			js := kjson.ToJson(nil, errs, false)
			o["render_len"] = len(msg)
			o["json_valid"] = json.Valid([]byte(js))
		})
	}
	return o
}
