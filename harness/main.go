// kdrive: replays specification-generated cases into the real klog code and
// records what happened. It only records; all judging is done by TLC.
package main

import (
	"bufio"
	"bytes"
	"encoding/json"
	"flag"
	"fmt"
	"os"
	"runtime/debug"
	"strconv"
	"strings"
	"time"
	_ "time/tzdata"
	"unicode/utf8"
)

type M = map[string]any

var handlers = map[string]func(c M) M{}

func main() {
	in := flag.String("in", "", "cases (ndjson)")
	out := flag.String("out", "", "observations (ndjson)")
	from := flag.Int("from", 0, "skip the first n cases")
	flag.Parse()
	if *in == "" || *out == "" {
		fmt.Fprintln(os.Stderr, "usage: kdrive -in cases -out obs [-from n]")
		os.Exit(3)
	}
	f, err := os.Open(*in)
	if err != nil {
		fmt.Fprintln(os.Stderr, err)
		os.Exit(3)
	}
	defer f.Close()
	o, err := os.OpenFile(*out, os.O_CREATE|os.O_WRONLY|os.O_APPEND, 0644)
	if err != nil {
		fmt.Fprintln(os.Stderr, err)
		os.Exit(3)
	}
	defer o.Close()
	caseTimeout := 120 * time.Second
	if v, err := strconv.Atoi(os.Getenv("KDRIVE_CASE_TIMEOUT")); err == nil && v > 0 {
		caseTimeout = time.Duration(v) * time.Second
	}
	sc := bufio.NewScanner(f)
	sc.Buffer(make([]byte, 1<<20), 1<<28)
	i := 0
	for sc.Scan() {
		line := sc.Bytes()
		if len(bytes.TrimSpace(line)) == 0 {
			continue
		}
		i++
		if i <= *from {
			continue
		}
		var c M
		dec := json.NewDecoder(bytes.NewReader(line))
		dec.UseNumber()
		if err := dec.Decode(&c); err != nil {
			fmt.Fprintf(os.Stderr, "bad case line %d: %v\n", i, err)
			os.Exit(3)
		}
		watch := time.AfterFunc(caseTimeout, func() {
			// a hang: the supervisor attributes it to the case in progress
			fmt.Fprintf(os.Stderr, "hang: case %d exceeded %s\n", i, caseTimeout)
			os.Exit(4)
		})
		res := runCase(c)
		watch.Stop()
		b := encode(res)
		// one write per observation, so that the number of lines in the
		// output tells the supervisor which case was running at a crash
		if _, err := o.Write(append(b, '\n')); err != nil {
			fmt.Fprintln(os.Stderr, err)
			os.Exit(3)
		}
	}
}

// caseLoc is the time zone the case runs in (field "tz"): the process zone (time.Local) and the zone
// of the controlled clock. It is a parameter of the environment that no judged result may depend on.
var caseLoc = time.UTC

func runCase(c M) (res M) {
	kind, _ := c["kind"].(string)
	h := handlers[kind]
	res = M{"case": c, "panic": "", "obs": M{}}
	caseLoc = time.UTC
	if tz, _ := c["tz"].(string); tz != "" {
		loc, err := time.LoadLocation(tz)
		if err != nil {
			fmt.Fprintln(os.Stderr, "kdrive: no such time zone:", tz, err)
			os.Exit(3)
		}
		caseLoc = loc
	}
	oldLocal := time.Local
	time.Local = caseLoc
	defer func() { time.Local = oldLocal }()
	if h == nil {
		res["panic"] = "kdrive: unknown case kind " + kind
		return
	}
	defer func() {
		if r := recover(); r != nil {
			res["panic"] = fmt.Sprint(r)
			res["site"] = panicSite(string(debug.Stack()))
			res["obs"] = M{}
		}
	}()
	res["obs"] = h(c)
	return
}

// panicSite extracts the first klog frame below the panic from a Go stack.
func panicSite(stack string) string {
	lines := strings.Split(stack, "\n")
	seenPanic := false
	for _, l := range lines {
		if strings.HasPrefix(l, "panic(") {
			seenPanic = true
			continue
		}
		if seenPanic && strings.HasPrefix(l, "github.com/jotaen/klog") {
			if i := strings.LastIndex(l, "("); i > 0 {
				l = l[:i]
			}
			return strings.TrimPrefix(l, "github.com/jotaen/klog/")
		}
	}
	return ""
}

func encode(v any) []byte {
	var buf bytes.Buffer
	e := json.NewEncoder(&buf)
	e.SetEscapeHTML(false)
	if err := e.Encode(v); err != nil {
		panic(err)
	}
	return bytes.TrimRight(buf.Bytes(), "\n")
}

// ---- symbol <-> bytes map (DESIGN 3.1) -------------------------------------
// Private-use code points U+E000..U+E0FF stand for the raw bytes 0x00..0xFF
// where those bytes are not part of valid UTF-8. symToBytes is applied to every
// text that is handed to klog; bytesToSym to every text klog hands back.

func symToBytes(s string) string {
	if !strings.ContainsAny(s, "") && !hasPUA(s) {
		return s
	}
	var b strings.Builder
	for _, r := range s {
		if r >= 0xE000 && r <= 0xE0FF {
			b.WriteByte(byte(r - 0xE000))
		} else {
			b.WriteRune(r)
		}
	}
	return b.String()
}

func hasPUA(s string) bool {
	for _, r := range s {
		if r >= 0xE000 && r <= 0xE0FF {
			return true
		}
	}
	return false
}

func bytesToSym(s string) string {
	if utf8.ValidString(s) && !strings.ContainsRune(s, 0) {
		return s
	}
	var b strings.Builder
	for i := 0; i < len(s); {
		r, w := utf8.DecodeRuneInString(s[i:])
		if (r == utf8.RuneError && w == 1) || r == 0 {
			b.WriteRune(rune(0xE000 + int(s[i])))
		} else {
			b.WriteRune(r)
		}
		i += w
	}
	return b.String()
}

func str(c M, k string) string {
	v, _ := c[k].(string)
	return v
}

func num(c M, k string) int {
	switch v := c[k].(type) {
	case json.Number:
		n, _ := v.Int64()
		return int(n)
	case float64:
		return int(v)
	case int:
		return v
	}
	return 0
}

func boolean(c M, k string) bool {
	v, _ := c[k].(bool)
	return v
}

func sub(c M, k string) M {
	v, _ := c[k].(map[string]any)
	if v == nil {
		return M{}
	}
	return v
}

func list(c M, k string) []any {
	v, _ := c[k].([]any)
	return v
}

func strs(c M, k string) []string {
	var r []string
	for _, x := range list(c, k) {
		s, _ := x.(string)
		r = append(r, s)
	}
	return r
}
