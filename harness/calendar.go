package main

import (
	"fmt"
	"sort"
	"sync"

	"github.com/jotaen/klog/klog"
	"github.com/jotaen/klog/klog/service/period"
)

func init() {
	handlers["cal_year"] = hCalYear
	handlers["hash_classes"] = hHashClasses
}

func ymd(d klog.Date) int {
	if d == nil {
		return -1
	}
	return d.Year()*10000 + d.Month()*100 + d.Day()
}

// try runs f and reports a panic as text instead of propagating it.
func try(f func()) (msg string) {
	defer func() {
		if r := recover(); r != nil {
			msg = fmt.Sprint(r)
		}
	}()
	f()
	return ""
}

type rle struct {
	runs [][]int
}

func (r *rle) add(t []int) {
	if n := len(r.runs); n > 0 {
		last := r.runs[n-1]
		same := len(last) == len(t)+1
		for i := 0; same && i < len(t); i++ {
			if last[i+1] != t[i] {
				same = false
			}
		}
		if same {
			last[0]++
			return
		}
	}
	r.runs = append(r.runs, append([]int{1}, t...))
}

func periodTuple(what string, d klog.Date, get func() period.Period, panics *[]any) []int {
	var p period.Period
	if msg := try(func() { p = get() }); msg != "" {
		*panics = append(*panics, []any{ymd(d), what, msg})
		return []int{-1, -1}
	}
	return []int{ymd(p.Since()), ymd(p.Until())}
}

func hCalYear(c M) M {
	y := num(c, "year")
	// the time zone of the process is part of the environment of the case (field "tz", see runCase)
	wd := make([]byte, 0, 366)
	var week, weekPrev, month, monthPrev, quarter, quarterPrev, year, yearPrev rle
	panics := []any{}
	prevPanics := []any{}
	n := 0
	for m := 1; m <= 12; m++ {
		for dd := 1; dd <= 31; dd++ {
			d, err := klog.NewDate(y, m, dd)
			if err != nil {
				continue
			}
			n++
			wd = append(wd, byte('0'+d.Weekday()))
			wy, wk := d.WeekNumber()
			w := period.NewWeekFromDate(d)
			week.add(append([]int{wk, wy}, append(periodTuple("week.Period", d, func() period.Period { return w.Period() }, &panics), int(w.Hash()))...))
			weekPrev.add(periodTuple("week.Previous", d, func() period.Period { return w.Previous().Period() }, &prevPanics))
			mo := period.NewMonthFromDate(d)
			month.add(append(periodTuple("month.Period", d, func() period.Period { return mo.Period() }, &panics), int(mo.Hash())))
			monthPrev.add(periodTuple("month.Previous", d, func() period.Period { return mo.Previous().Period() }, &prevPanics))
			q := period.NewQuarterFromDate(d)
			quarter.add(append([]int{d.Quarter()}, append(periodTuple("quarter.Period", d, func() period.Period { return q.Period() }, &panics), int(q.Hash()))...))
			quarterPrev.add(periodTuple("quarter.Previous", d, func() period.Period { return q.Previous().Period() }, &prevPanics))
			yr := period.NewYearFromDate(d)
			year.add(append(periodTuple("year.Period", d, func() period.Period { return yr.Period() }, &panics), int(yr.Hash())))
			yearPrev.add(periodTuple("year.Previous", d, func() period.Period { return yr.Previous().Period() }, &prevPanics))
		}
	}
	// period patterns of this year
	ys := fmt.Sprintf("%04d", y)
	var pats []string
	pats = append(pats, ys)
	for m := 0; m <= 13; m++ {
		pats = append(pats, fmt.Sprintf("%s-%02d", ys, m))
	}
	for q := 0; q <= 9; q++ {
		pats = append(pats, fmt.Sprintf("%s-Q%d", ys, q))
	}
	for w := 0; w <= 54; w++ {
		pats = append(pats, fmt.Sprintf("%s-W%02d", ys, w))
		if w < 10 {
			pats = append(pats, fmt.Sprintf("%s-W%d", ys, w))
		}
	}
	accepted := []any{}
	patPanics := []any{}
	for _, p := range pats {
		var per period.Period
		var err error
		if msg := try(func() { per, err = period.NewPeriodFromPatternString(p) }); msg != "" {
			patPanics = append(patPanics, []any{p, msg})
			continue
		}
		if err == nil {
			accepted = append(accepted, []any{p, ymd(per.Since()), ymd(per.Until())})
		}
	}
	return M{"n": n, "wd": string(wd),
		"week": nz(week.runs), "week_prev": nz(weekPrev.runs),
		"month": nz(month.runs), "month_prev": nz(monthPrev.runs),
		"quarter": nz(quarter.runs), "quarter_prev": nz(quarterPrev.runs),
		"year": nz(year.runs), "year_prev": nz(yearPrev.runs),
		"panics": panics, "prev_panics": prevPanics,
		"pat_tested": len(pats), "pat_accepted": accepted, "pat_panics": patPanics}
}

func nz(r [][]int) [][]int {
	if r == nil {
		return [][]int{}
	}
	return r
}

// ---- global bucket classes -------------------------------------------------

type classTable struct {
	nDates  int
	classes map[string][][]int // kind -> sorted [min, max] per hash value
	nDay    int
	dayMult [][]int
}

var classCache sync.Map

func buildClasses(from, to int) *classTable {
	type mm struct{ min, max int }
	maps := map[string]map[uint32]*mm{"week": {}, "month": {}, "quarter": {}, "year": {}, "day": {}}
	add := func(kind string, h uint32, v int) {
		e := maps[kind][h]
		if e == nil {
			maps[kind][h] = &mm{v, v}
			return
		}
		if v < e.min {
			e.min = v
		}
		if v > e.max {
			e.max = v
		}
	}
	t := &classTable{classes: map[string][][]int{}}
	for y := from; y <= to; y++ {
		for m := 1; m <= 12; m++ {
			for dd := 1; dd <= 31; dd++ {
				d, err := klog.NewDate(y, m, dd)
				if err != nil {
					continue
				}
				t.nDates++
				v := ymd(d)
				add("day", uint32(period.NewDayFromDate(d).Hash()), v)
				add("week", uint32(period.NewWeekFromDate(d).Hash()), v)
				add("month", uint32(period.NewMonthFromDate(d).Hash()), v)
				add("quarter", uint32(period.NewQuarterFromDate(d).Hash()), v)
				add("year", uint32(period.NewYearFromDate(d).Hash()), v)
			}
		}
	}
	for k, mp := range maps {
		if k == "day" {
			t.nDay = len(mp)
			for _, e := range mp {
				if e.min != e.max {
					t.dayMult = append(t.dayMult, []int{e.min, e.max})
				}
			}
			continue
		}
		l := make([][]int, 0, len(mp))
		for _, e := range mp {
			l = append(l, []int{e.min, e.max})
		}
		sort.Slice(l, func(i, j int) bool { return l[i][0] < l[j][0] })
		t.classes[k] = l
	}
	return t
}

// hash_classes: {from, to, k, slice, of}: the slice-th part of the list of
// bucket classes (dates with equal Hash()) of kind k over all dates of the years from..to.
func hHashClasses(c M) M {
	from, to := num(c, "from"), num(c, "to")
	key := fmt.Sprintf("%d-%d", from, to)
	v, ok := classCache.Load(key)
	if !ok {
		v = buildClasses(from, to)
		classCache.Store(key, v)
	}
	t := v.(*classTable)
	k := str(c, "k")
	if k == "day" {
		return M{"n_dates": t.nDates, "n_classes": t.nDay, "multi": nz(t.dayMult)}
	}
	all := t.classes[k]
	of, sl := num(c, "of"), num(c, "slice")
	lo, hi := len(all)*(sl-1)/of, len(all)*sl/of
	return M{"n_dates": t.nDates, "n_classes": len(all), "lo": lo, "classes": nz(all[lo:hi])}
}
