package main

import (
	"github.com/jotaen/klog/klog"
	"github.com/jotaen/klog/klog/parser"
	"github.com/jotaen/klog/klog/parser/txt"
)

func symLines(ls []string) []string {
	r := make([]string, len(ls))
	for i, l := range ls {
		r[i] = bytesToSym(l)
	}
	return r
}

func projectEntry(e klog.Entry) M {
	sum := symLines(e.Summary().Lines())
	return klog.Unbox[M](&e,
		func(r klog.Range) M {
			return M{"kind": "range", "a": r.Start().MidnightOffset().InMinutes(), "b": r.End().MidnightOffset().InMinutes(),
				"canon": r.ToString(), "total": e.Duration().InMinutes(), "summary": sum}
		},
		func(d klog.Duration) M {
			return M{"kind": "dur", "a": d.InMinutes(), "b": 0, "canon": d.ToString(), "total": e.Duration().InMinutes(), "summary": sum}
		},
		func(o klog.OpenRange) M {
			return M{"kind": "open", "a": o.Start().MidnightOffset().InMinutes(), "b": 0, "canon": o.ToString(),
				"total": e.Duration().InMinutes(), "summary": sum}
		})
}

func projectRecord(r klog.Record) M {
	es := []M{}
	for _, e := range r.Entries() {
		es = append(es, projectEntry(e))
	}
	return M{"date": r.Date().ToString(), "should": r.ShouldTotal().InMinutes(),
		"summary": symLines(r.Summary().Lines()), "entries": es}
}

func projectRecords(rs []klog.Record) []M {
	out := []M{}
	for _, r := range rs {
		out = append(out, projectRecord(r))
	}
	return out
}

func projectBlocks(bs []txt.Block) []M {
	out := []M{}
	for _, b := range bs {
		ls := [][]string{}
		for _, l := range b.Lines() {
			ls = append(ls, []string{bytesToSym(l.Text), l.LineEnding})
		}
		out = append(out, M{"first": b.OverallLineIndex(0), "lines": ls})
	}
	return out
}

func projectErrors(errs []txt.Error) []M {
	out := []M{}
	for _, e := range errs {
		m := M{"line": e.LineNumber(), "pos": e.Position(), "len": e.Length(), "code": e.Code(), "text": "", "text_panic": "",
			"title": e.Title()}
		if msg := try(func() { m["text"] = bytesToSym(e.LineText()) }); msg != "" {
			m["text_panic"] = msg
		}
		out = append(out, m)
	}
	return out
}

// projectParse is the full observable result of a Parse call.
func projectParse(p parser.Parser, text string) M {
	rs, bs, errs := p.Parse(text)
	return M{"ok": errs == nil, "nil_records": rs == nil, "nil_blocks": bs == nil,
		"records": projectRecords(rs), "blocks": projectBlocks(bs), "errors": projectErrors(errs)}
}
