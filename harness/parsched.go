package main

import (
	"reflect"
	"runtime"
	"sync"

	"github.com/jotaen/klog/klog/parser"
	"github.com/jotaen/klog/klog/parser/engine"
)

func init() {
	handlers["parsched"] = hParSched
}

func permutations(n int) [][]int {
	var res [][]int
	var rec func(cur []int, used []bool)
	rec = func(cur []int, used []bool) {
		if len(cur) == n {
			res = append(res, append([]int{}, cur...))
			return
		}
		for i := 0; i < n; i++ {
			if !used[i] {
				used[i] = true
				rec(append(cur, i), used)
				used[i] = false
			}
		}
	}
	rec(nil, make([]bool, n))
	return res
}

// parsched: {text, n, natural}: the parallel parser with n workers under every order of
// arrival of the batch results (forced through hook H2), compared with the serial parser;
// plus `natural` free runs whose send/collect events are recorded.
func hParSched(c M) M {
	text := symToBytes(str(c, "text"))
	n := num(c, "n")
	serial := normalise(projectParse(parser.NewSerialParser(), text))
	unequal := [][]int{}
	badArrivals := 0
	var firstBad M
	perms := permutations(n)
	for _, order := range perms {
		var mu sync.Mutex
		cond := sync.NewCond(&mu)
		turn := 0
		arrivals := []int{}
		engine.VerifBeforeSend = func(i int) {
			mu.Lock()
			for turn < len(order) && order[turn] != i {
				cond.Wait()
			}
			mu.Unlock()
		}
		engine.VerifAfterCollect = func(i int) {
			mu.Lock()
			arrivals = append(arrivals, i)
			turn++
			cond.Broadcast()
			mu.Unlock()
		}
		p := projectParse(parser.NewParallelParser(n), text)
		engine.VerifBeforeSend, engine.VerifAfterCollect = nil, nil
		if !reflect.DeepEqual(arrivals, order) {
			badArrivals++
		}
		if !reflect.DeepEqual(normalise(p), serial) {
			unequal = append(unequal, order)
			if firstBad == nil {
				firstBad = p
			}
		}
	}
	// free-running schedules under different GOMAXPROCS
	naturals := []M{}
	for k := 0; k < num(c, "natural"); k++ {
		old := runtime.GOMAXPROCS([]int{1, 4, 16}[k%3])
		var mu sync.Mutex
		events := [][]any{}
		engine.VerifBeforeSend = func(i int) {
			mu.Lock()
			events = append(events, []any{"send", i})
			mu.Unlock()
		}
		engine.VerifAfterCollect = func(i int) {
			mu.Lock()
			events = append(events, []any{"collect", i})
			mu.Unlock()
		}
		p := projectParse(parser.NewParallelParser(n), text)
		engine.VerifBeforeSend, engine.VerifAfterCollect = nil, nil
		runtime.GOMAXPROCS(old)
		naturals = append(naturals, M{"events": events, "equal": reflect.DeepEqual(normalise(p), serial)})
	}
	o := M{"orders": len(perms), "unequal_orders": unequal, "bad_arrivals": badArrivals, "naturals": naturals}
	if firstBad != nil {
		o["first_unequal"] = firstBad
	}
	return o
}
