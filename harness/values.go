package main

import (
	"fmt"

	"github.com/jotaen/klog/klog"
)

func init() {
	handlers["time"] = hTime
	handlers["timefmt"] = hTimeFmt
	handlers["range_row"] = hRangeRow
	handlers["plus_row"] = hPlusRow
	handlers["date"] = hDate
	handlers["date_year"] = hDateYear
	handlers["dur"] = hDur
}

func hTime(c M) M {
	t, err := klog.NewTimeFromString(str(c, "s"))
	if err != nil {
		return M{"ok": false, "err": err.Error()}
	}
	o := M{"ok": true, "off": t.MidnightOffset().InMinutes(), "h12": !t.Format().Use24HourClock, "str": t.ToString()}
	// writing the value in the other notation, adding to it and comparing it are observations: the value stays what it was
	o["alt"] = t.ToStringWithFormat(klog.TimeFormat{Use24HourClock: !t.Format().Use24HourClock})
	t.Plus(klog.NewDuration(0, 1))
	t.IsEqualTo(t)
	o["str2"] = t.ToString()
	o["h12_2"] = !t.Format().Use24HourClock
	o["off2"] = t.MidnightOffset().InMinutes()
	return o
}

// timeFromOffset builds a Time through the exported constructors.
func timeFromOffset(off int) (klog.Time, error) {
	hm := ((off % 1440) + 1440) % 1440
	h, m := hm/60, hm%60
	switch {
	case off < 0:
		return klog.NewTimeYesterday(h, m)
	case off >= 1440:
		return klog.NewTimeTomorrow(h, m)
	}
	return klog.NewTime(h, m)
}

func hTimeFmt(c M) M {
	o := hTime(c)
	t, err := timeFromOffset(num(c, "off"))
	if err != nil {
		o["api_ok"] = false
		o["api_off"] = 0
		o["api_str"] = ""
		o["eq_runs"] = [][]int{}
		o["ge_runs"] = [][]int{}
		return o
	}
	o["api_ok"] = true
	o["api_off"] = t.MidnightOffset().InMinutes()
	o["api_str"] = t.ToString()
	// equality and order against every other time value
	var eq, ge runs
	if parsed, pErr := klog.NewTimeFromString(str(c, "s")); pErr == nil {
		for e := -1440; e <= 2879; e++ {
			other, _ := timeFromOffset(e)
			eq.add(e, parsed.IsEqualTo(other))
			ge.add(e, parsed.IsAfterOrEqual(other))
		}
	}
	o["eq_runs"] = eq.get()
	o["ge_runs"] = ge.get()
	if o["ok"] == false {
		o["off"], o["h12"], o["str"] = 0, false, ""
	}
	return o
}

type runs struct {
	r      [][]int
	open   bool
	lo, hi int
}

func (r *runs) add(v int, ok bool) {
	if ok {
		if r.open && v == r.hi+1 {
			r.hi = v
			return
		}
		r.flush()
		r.open, r.lo, r.hi = true, v, v
		return
	}
	r.flush()
}
func (r *runs) flush() {
	if r.open {
		r.r = append(r.r, []int{r.lo, r.hi})
		r.open = false
	}
}
func (r *runs) get() [][]int {
	r.flush()
	if r.r == nil {
		return [][]int{}
	}
	return r.r
}

type distinct struct {
	seen map[int]bool
	l    []int
}

func (d *distinct) add(v int) {
	if d.seen == nil {
		d.seen = map[int]bool{}
	}
	if !d.seen[v] {
		d.seen[v] = true
		d.l = append(d.l, v)
	}
}
func (d *distinct) get() []int {
	if d.l == nil {
		return []int{}
	}
	return d.l
}

func hRangeRow(c M) M {
	start, err := timeFromOffset(num(c, "off"))
	if err != nil {
		panic(err)
	}
	var ok runs
	var dme distinct
	tested := 0
	for e := -1440; e <= 2879; e++ {
		end, err := timeFromOffset(e)
		if err != nil {
			panic(err)
		}
		tested++
		r, rErr := klog.NewRange(start, end)
		ok.add(e, rErr == nil)
		if rErr == nil {
			dme.add(r.Duration().InMinutes() - e)
		}
	}
	return M{"tested": tested, "ok_runs": ok.get(), "dur_minus_end": dme.get()}
}

func hPlusRow(c M) M {
	t, err := klog.NewTimeFromString(str(c, "s"))
	if err != nil {
		panic(err)
	}
	var ok runs
	var rmd distinct
	h12 := map[bool]bool{}
	var h12l []bool
	bad := 0
	tested := 0
	for d := -2880; d <= 2880; d++ {
		tested++
		r, pErr := t.Plus(klog.NewDuration(0, d))
		ok.add(d, pErr == nil)
		if pErr != nil {
			continue
		}
		rmd.add(r.MidnightOffset().InMinutes() - d)
		f := !r.Format().Use24HourClock
		if !h12[f] {
			h12[f] = true
			h12l = append(h12l, f)
		}
		back, bErr := klog.NewTimeFromString(r.ToString())
		if bErr != nil || back.MidnightOffset().InMinutes() != r.MidnightOffset().InMinutes() || back.Format() != r.Format() {
			bad++
		}
	}
	if h12l == nil {
		h12l = []bool{}
	}
	return M{"tested": tested, "ok_runs": ok.get(), "res_minus_d": rmd.get(), "res_h12": h12l, "bad_str": bad}
}

func hDate(c M) M {
	d, err := klog.NewDateFromString(str(c, "s"))
	if err != nil {
		return M{"ok": false, "err": err.Error()}
	}
	o := M{"ok": true, "y": d.Year(), "m": d.Month(), "d": d.Day(), "str": d.ToString(), "wd": d.Weekday()}
	o["alt"] = d.ToStringWithFormat(klog.DateFormat{UseDashes: !d.Format().UseDashes})
	try(func() { d.PlusDays(1) }) // (panics by contract at the last representable date)
	// date arithmetic over short and very long distances: [n, yyyymmdd of d+n] (-1: outside the calendar)
	plus := [][]int{}
	for _, n := range []int{1, -1, 7, -25, 365, 36524, 106751, 106752, -106752, 146097, -146097, 1000000, -3000000, 3652424} {
		res := -1
		try(func() { res = ymd(d.PlusDays(n)) })
		plus = append(plus, []int{n, res})
	}
	o["plus"] = plus
	d.WeekNumber()
	o["str2"] = d.ToString()
	return o
}

func hDateYear(c M) M {
	y := num(c, "year")
	rows := []M{}
	mismatch := []string{}
	tested := 0
	for _, sep := range []string{"--", "//", "-/", "/-"} {
		for m := 0; m <= 13; m++ {
			days := []int{}
			for d := 0; d <= 32; d++ {
				s := fmt.Sprintf("%04d%c%02d%c%02d", y, sep[0], m, sep[1], d)
				tested++
				dt, err := klog.NewDateFromString(s)
				if err != nil {
					continue
				}
				days = append(days, d)
				if dt.Year() != y || dt.Month() != m || dt.Day() != d || dt.ToString() != s {
					mismatch = append(mismatch, s)
				}
			}
			rows = append(rows, M{"sep": sep, "m": m, "days": days})
		}
	}
	return M{"tested": tested, "rows": rows, "mismatch": mismatch}
}

func hDur(c M) M {
	d, err := klog.NewDurationFromString(str(c, "s"))
	if err != nil {
		return M{"ok": false, "err": err.Error()}
	}
	return M{"ok": true, "mins": d.InMinutes(), "str": d.ToString()}
}
