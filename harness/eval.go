package main

import (
	"os"
	"path/filepath"
	"time"

	"github.com/jotaen/klog/klog/app"
	kmain "github.com/jotaen/klog/klog/app/main"
)

func init() {
	handlers["eval"] = hEval
}

// eval: {text, now, cpus, runs: [{id, args, cfg, env}]}: read-only commands on one file.
// Each run has its own configuration file text and environment (colour scheme, NO_COLOR).
func hEval(c M) M {
	dir, err := os.MkdirTemp("", "kdrive")
	if err != nil {
		panic(err)
	}
	defer os.RemoveAll(dir)
	home := filepath.Join(dir, "home")
	os.Mkdir(home, 0755)
	file := filepath.Join(dir, "f.klg")
	if err := os.WriteFile(file, []byte(symToBytes(str(c, "text"))), 0644); err != nil {
		panic(err)
	}
	cwd, _ := os.Getwd()
	os.Chdir(dir)
	defer os.Chdir(cwd)
	fakeNow = parseNow(str(c, "now"))
	app.VerifNow = func() time.Time { return fakeNow }
	cpus := num(c, "cpus")
	if cpus == 0 {
		cpus = 1
	}
	runs := []M{}
	for _, ri := range list(c, "runs") {
		r, _ := ri.(map[string]any)
		env := sub(r, "env")
		config, cErr := app.NewConfig(
			app.FromDeterminedValues{NumCpus: cpus},
			app.FromEnvVars{GetVar: func(k string) string { v, _ := env[k].(string); return v }},
			app.FromConfigFile{FileContents: str(r, "cfg")},
		)
		res := M{"id": str(r, "id"), "code": -1, "out": "", "err": "", "panic": ""}
		if cErr != nil {
			res["err"] = "config: " + cErr.Error()
			runs = append(runs, res)
			continue
		}
		args := strs(r, "args")
		for i := range args {
			args[i] = symToBytes(args[i])
		}
		args = append(args, "f.klg")
		var code int
		var runErr error
		var pmsg string
		out := captureStdout(func() {
			pmsg = try(func() {
				code, runErr = kmain.Run(app.NewFileOrPanic(home), app.Meta{}, config, args)
			})
		})
		res["code"] = code
		res["out"] = bytesToSym(out)
		res["panic"] = pmsg
		if runErr != nil {
			res["err"] = bytesToSym(runErr.Error())
		}
		runs = append(runs, res)
	}
	return M{"runs": runs}
}
