package main

import (
	"encoding/json"
	"io"
	"os"
	"path/filepath"
	"sort"
	"strings"
	"time"

	"github.com/jotaen/klog/klog/app"
	"github.com/jotaen/klog/klog/app/cli/util"
	kmain "github.com/jotaen/klog/klog/app/main"
	"github.com/jotaen/klog/klog/parser"
)

func init() {
	handlers["cli"] = hCli
}

func jsonUnmarshal(b []byte, v any) error { return json.Unmarshal(b, v) }

var fakeNow time.Time

func parseNow(s string) time.Time {
	for _, layout := range []string{"2006-01-02T15:04:05", "2006-01-02T15:04"} {
		if t, err := time.ParseInLocation(layout, s, caseLoc); err == nil {
			return t
		}
	}
	panic("kdrive: bad now " + s)
}

// captureStdout runs f with os.Stdout redirected into a pipe.
func captureStdout(f func()) string {
	old := os.Stdout
	r, w, err := os.Pipe()
	if err != nil {
		panic(err)
	}
	os.Stdout = w
	done := make(chan string)
	go func() {
		b, _ := io.ReadAll(r)
		done <- string(b)
	}()
	func() {
		defer func() {
			os.Stdout = old
			w.Close()
		}()
		f()
	}()
	out := <-done
	r.Close()
	return out
}

var oldTime = time.Date(2001, 1, 1, 0, 0, 0, 0, time.UTC)

func readFiles(dir string) M {
	res := M{}
	ents, _ := os.ReadDir(dir)
	for _, e := range ents {
		if e.IsDir() {
			continue
		}
		b, err := os.ReadFile(filepath.Join(dir, e.Name()))
		if err == nil {
			res[e.Name()] = bytesToSym(string(b))
		}
	}
	return res
}

// cli: a history of command invocations on one temporary directory.
//
//	{files: {name: text}, cfg: config.ini text, env: {NAME: value}, cpus: n,
//	 cmds: [{args: [...], now: "2020-01-01T12:00:00", ticks: ["..."]}], parse: bool}
//
// Every command goes through the real entry point klog.Run (kong decoding,
// context, file access); the clock is the hook H4, the pause loop is driven
// by hook H1.
func hCli(c M) M {
	first := runHistory(c)
	n := num(c, "repeat")
	equal := true
	var other M
	for i := 1; i < n; i++ {
		again := runHistory(c)
		if !sameSteps(first, again) {
			equal = false
			other = again
			break
		}
	}
	first["repeat_equal"] = equal
	if other != nil {
		first["repeat_other"] = other["steps"]
	}
	return first
}

// sameSteps compares what the user can observe: exit codes, errors and file contents.
func sameSteps(a, b M) bool {
	as, _ := a["steps"].([]M)
	bs, _ := b["steps"].([]M)
	if len(as) != len(bs) {
		return false
	}
	for i := range as {
		// (the error text names the temporary directory and is not compared)
		for _, k := range []string{"code", "files", "touched"} {
			if string(encode(as[i][k])) != string(encode(bs[i][k])) {
				return false
			}
		}
	}
	return true
}

func runHistory(c M) M {
	dir, err := os.MkdirTemp("", "kdrive")
	if err != nil {
		panic(err)
	}
	defer os.RemoveAll(dir)
	work := filepath.Join(dir, "w")
	home := filepath.Join(dir, "home")
	os.Mkdir(work, 0755)
	os.Mkdir(home, 0755)
	names := []string{}
	for name, text := range sub(c, "files") {
		s, _ := text.(string)
		p := filepath.Join(work, name)
		os.MkdirAll(filepath.Dir(p), 0755)
		if err := os.WriteFile(p, []byte(symToBytes(s)), 0644); err != nil {
			panic(err)
		}
		names = append(names, name)
	}
	sort.Strings(names)
	if bm := str(c, "bookmarks"); bm != "" {
		os.WriteFile(filepath.Join(home, "bookmarks.json"), []byte(bm), 0644)
	}
	// the target file may be given by the default bookmark instead of an argument
	if db := str(c, "default_bookmark"); db != "" {
		bm, _ := json.Marshal([]M{{"name": "default", "path": filepath.Join(work, db)}})
		os.WriteFile(filepath.Join(home, "bookmarks.json"), bm, 0644)
	}
	cwd, _ := os.Getwd()
	os.Chdir(work)
	defer os.Chdir(cwd)

	env := sub(c, "env")
	cpus := num(c, "cpus")
	if cpus == 0 {
		cpus = 1
	}
	steps := []M{}
	for _, ci := range list(c, "cmds") {
		cmd, _ := ci.(map[string]any)
		args := strs(cmd, "args")
		for i := range args {
			args[i] = symToBytes(args[i])
		}
		step := M{}
		// mark all files old, so that a rewrite is visible even if the bytes are the same
		before := map[string]string{}
		ents, _ := os.ReadDir(work)
		for _, e := range ents {
			os.Chtimes(filepath.Join(work, e.Name()), oldTime, oldTime)
			b, _ := os.ReadFile(filepath.Join(work, e.Name()))
			before[e.Name()] = string(b)
		}
		config, cErr := app.NewConfig(
			app.FromDeterminedValues{NumCpus: cpus},
			app.FromEnvVars{GetVar: func(k string) string { v, _ := env[k].(string); return v }},
			app.FromConfigFile{FileContents: str(c, "cfg")},
		)
		if cErr != nil {
			step["code"] = -1
			step["err"] = "config: " + cErr.Error()
			step["out"] = ""
			step["files"] = readFiles(work)
			step["touched"] = []string{}
			steps = append(steps, step)
			continue
		}
		if n := str(cmd, "now"); n != "" {
			fakeNow = parseNow(n)
		}
		app.VerifNow = func() time.Time { return fakeNow }
		ticks := strs(cmd, "ticks")
		edits := strs(cmd, "edits")
		nticks := 0
		tickFiles := []string{}
		tickPre := []string{}
		util.VerifTick = nil
		if len(args) > 0 && args[0] == "pause" {
			util.VerifTick = func(counter int64) bool {
				// the file as the previous iteration left it (before the first tick: as `pause` wrote it)
				if b, rErr := os.ReadFile(filepath.Join(work, "f.klg")); rErr == nil {
					tickFiles = append(tickFiles, bytesToSym(string(b)))
				}
				if int(counter) > len(ticks) {
					return true
				}
				// the environment: somebody else appends a record to the file while `pause` sleeps
				// (KCli!ExtAppend); the next iteration finds the file like this
				if int(counter) <= len(edits) && edits[counter-1] != "" {
					p := filepath.Join(work, "f.klg")
					b, _ := os.ReadFile(p)
					sep := "\n\n"
					if len(b) == 0 || b[len(b)-1] == '\n' {
						sep = "\n"
					}
					os.WriteFile(p, append(b, []byte(sep+symToBytes(edits[counter-1]))...), 0644)
				}
				if b, rErr := os.ReadFile(filepath.Join(work, "f.klg")); rErr == nil {
					tickPre = append(tickPre, bytesToSym(string(b)))
				}
				fakeNow = parseNow(ticks[counter-1])
				nticks++
				return false
			}
		}
		var code int
		var runErr error
		var panicMsg string
		// what arrives on standard input (per command, else per case); without the field standard input is empty
		stdinText, hasStdin := cmd["stdin"].(string)
		if !hasStdin {
			stdinText, _ = c["stdin"].(string)
		}
		sf, sErr := os.CreateTemp("", "kdrive-stdin")
		if sErr != nil {
			panic(sErr)
		}
		sf.WriteString(symToBytes(stdinText))
		sf.Seek(0, 0)
		oldStdin := os.Stdin
		os.Stdin = sf
		out := captureStdout(func() {
			panicMsg = try(func() {
				code, runErr = kmain.Run(app.NewFileOrPanic(home), app.Meta{Specification: "[spec]", License: "[license]", Version: "v0", SrcHash: "0000000"}, config, args)
			})
		})
		os.Stdin = oldStdin
		sf.Close()
		os.Remove(sf.Name())
		util.VerifTick = nil
		if panicMsg != "" {
			panic(panicMsg)
		}
		step["code"] = code
		step["err"] = ""
		if runErr != nil {
			step["err"] = bytesToSym(runErr.Error())
		}
		step["out"] = bytesToSym(out)
		step["ticks_run"] = nticks
		step["tick_files"] = tickFiles
		step["tick_pre"] = tickPre
		touched := []string{}
		ents, _ = os.ReadDir(work)
		for _, e := range ents {
			st, sErr := os.Stat(filepath.Join(work, e.Name()))
			if sErr == nil && !st.ModTime().Equal(oldTime) {
				touched = append(touched, e.Name())
			}
		}
		sort.Strings(touched)
		step["touched"] = touched
		files := readFiles(work)
		step["files"] = files
		if boolean(c, "parse") {
			parsed := M{}
			for name, text := range files {
				if strings.HasSuffix(name, ".klg") {
					parsed[name] = projectParse(parser.NewSerialParser(), symToBytes(text.(string)))
				}
			}
			step["parsed"] = parsed
		}
		if b, rErr := os.ReadFile(filepath.Join(home, "bookmarks.json")); rErr == nil {
			step["bookmarks"] = string(b)
		} else {
			step["bookmarks"] = ""
		}
		steps = append(steps, step)
	}
	return M{"steps": steps, "workdir": work}
}
