package main

import (
	"regexp"
	"strings"

	"github.com/jotaen/klog/klog/app"
	kmain "github.com/jotaen/klog/klog/app/main"
)

func init() {
	handlers["config"] = hConfig
}

var configLine = regexp.MustCompile(`^([a-z_]+) = (.*)$`)

// readConfig builds the configuration the way klog's main function does and, if that succeeds,
// runs `klog config`; it returns whether the file was accepted, the exit code and the settings shown.
func readConfig(text string, env []string) (bool, int, string, [][]string) {
	isSet := map[string]bool{}
	for _, e := range env {
		isSet[e] = true
	}
	config, cErr := app.NewConfig(
		app.FromDeterminedValues{NumCpus: 1},
		app.FromEnvVars{GetVar: func(k string) string {
			if isSet[k] {
				return "1"
			}
			return ""
		}},
		app.FromConfigFile{FileContents: text},
	)
	if cErr != nil {
		return false, -1, "", [][]string{}
	}
	var code int
	out := captureStdout(func() {
		code, _ = kmain.Run(app.NewFileOrPanic("/nonexistent-klog-folder"), app.Meta{}, config, []string{"config", "--no-style"})
	})
	shown := [][]string{}
	for _, l := range strings.Split(out, "\n") {
		if m := configLine.FindStringSubmatch(l); m != nil {
			shown = append(shown, []string{m[1], m[2]})
		}
	}
	return true, code, out, shown
}

// config: {cfg: text of config.ini, env: [names of set variables]}
func hConfig(c M) M {
	env := strs(c, "env")
	ok, code, out, shown := readConfig(symToBytes(str(c, "cfg")), env)
	o := M{"accepted": ok, "code": code, "shown": shown, "accepted2": false, "shown2": [][]string{}}
	if ok {
		// what `klog config` prints is advertised as a valid configuration file: read it back
		ok2, _, _, shown2 := readConfig(out, env)
		o["accepted2"] = ok2
		o["shown2"] = shown2
	}
	return o
}
