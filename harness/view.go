package main

import (
	"reflect"
	"os"
	"path/filepath"
	"time"

	"github.com/jotaen/klog/klog"
	"github.com/jotaen/klog/klog/app"
	tf "github.com/jotaen/klog/klog/app/cli/terminalformat"
	kmain "github.com/jotaen/klog/klog/app/main"
	"github.com/jotaen/klog/klog/parser"
	"github.com/jotaen/klog/klog/parser/reconciling"
)

func init() {
	handlers["view"] = hView
}

type cliResult struct {
	code int
	out  string
	err  string
}

// runFile runs one command line (args + file) through klog.Run.
func runFile(home string, config app.Config, args []string, files ...string) cliResult {
	var code int
	var runErr error
	var pmsg string
	out := captureStdout(func() {
		pmsg = try(func() {
			code, runErr = kmain.Run(app.NewFileOrPanic(home), app.Meta{}, config, append(append([]string{}, args...), files...))
		})
	})
	if pmsg != "" {
		panic(pmsg)
	}
	r := cliResult{code: code, out: out}
	if runErr != nil {
		r.err = runErr.Error()
	}
	return r
}

// runStdin runs a command without file arguments, the text arriving on standard input.
func runStdin(home string, config app.Config, args []string, text string) cliResult {
	f, err := os.CreateTemp("", "kdrive-stdin")
	if err != nil {
		panic(err)
	}
	defer os.Remove(f.Name())
	f.WriteString(text)
	f.Seek(0, 0)
	old := os.Stdin
	os.Stdin = f
	defer func() { os.Stdin = old; f.Close() }()
	return runFile(home, config, args)
}

// channels: the same text reaching klog through its other input channels: standard input, and as the
// first of two files (the second one a fixed small record).
func channels(o M, home string, config app.Config, dir, file, text string) {
	sp := runStdin(home, config, []string{"print", "--no-style", "--no-warn"}, text)
	o["stdin_print_code"] = sp.code
	o["stdin_print"] = bytesToSym(sp.out)
	o["stdin_print_err"] = bytesToSym(sp.err)
	sj := runStdin(home, config, []string{"json"}, text)
	o["stdin_json_code"] = sj.code
	o["stdin_json"] = bytesToSym(sj.out)
	o["stdin_json_raw"] = sj.out // decoded by the supervisor
	fj := runFile(home, config, []string{"json"}, file)
	o["file_json"] = bytesToSym(fj.out)
	fp := runFile(home, config, []string{"print", "--no-style", "--no-warn"}, file)
	o["file_print_code"] = fp.code
	o["file_print"] = bytesToSym(fp.out)
	other := filepath.Join(dir, "b-other.klg")
	os.WriteFile(other, []byte("1999-12-31\n    1m second file\n"), 0644)
	ob := runFile(home, config, []string{"print", "--no-style", "--no-warn"}, other)
	o["other_print"] = bytesToSym(ob.out)
	two := runFile(home, config, []string{"print", "--no-style", "--no-warn"}, file, other)
	o["two_print_code"] = two.code
	o["two_print"] = bytesToSym(two.out)
	owt := runFile(home, config, []string{"print", "--no-style", "--no-warn"}, other, file)
	o["two_print_rev"] = bytesToSym(owt.out)
}

// view: {text}: the parse result together with what the user-facing views show:
// canonical print (and print of the print), JSON, terminal error report, no-op reconcile.
func hView(c M) M {
	text := symToBytes(str(c, "text"))
	serial := parser.NewSerialParser()
	o := projectParse(serial, text)
	dir, err := os.MkdirTemp("", "kdrive")
	if err != nil {
		panic(err)
	}
	defer os.RemoveAll(dir)
	home := filepath.Join(dir, "home")
	os.Mkdir(home, 0755)
	file := filepath.Join(dir, "f.klg")
	os.WriteFile(file, []byte(text), 0644)
	fakeNow = time.Date(2020, 1, 1, 12, 0, 0, 0, caseLoc)
	app.VerifNow = func() time.Time { return fakeNow }
	config := app.NewDefaultConfig(tf.COLOUR_THEME_NO_COLOUR)
	// the groups of observations the case asks for (all of them if it does not say)
	want := strs(c, "want")
	has := func(g string) bool {
		if len(want) == 0 {
			return true
		}
		for _, w := range want {
			if w == g {
				return true
			}
		}
		return false
	}

	p1 := runFile(home, config, []string{"print", "--no-style", "--no-warn"}, file)
	o["print_code"] = p1.code
	o["print"] = bytesToSym(p1.out)
	o["print_err"] = bytesToSym(p1.err)
	o["print2"] = ""
	o["reparsed"] = M{"ok": false, "records": []M{}}
	if p1.code == 0 && len(p1.out) > 0 {
		file2 := filepath.Join(dir, "g.klg")
		os.WriteFile(file2, []byte(p1.out), 0644)
		p2 := runFile(home, config, []string{"print", "--no-style", "--no-warn"}, file2)
		o["print2"] = bytesToSym(p2.out)
		rp := projectParse(serial, p1.out)
		o["reparsed"] = M{"ok": rp["ok"], "records": rp["records"]}
	}
	var j cliResult
	if has("json") {
		j = runFile(home, config, []string{"json"}, file)
		o["json_code"] = j.code
		o["json_raw"] = j.out // decoded by the supervisor with an independent JSON parser
		jp := runFile(home, config, []string{"json", "--pretty"}, file)
		o["json_pretty_raw"] = jp.out
	}
	o["file"] = file
	// the same text as a second file whose name sorts before the first one: errors of several files
	file0 := filepath.Join(dir, "e.klg")
	o["file2"] = file0
	o["multi_code"] = 0
	o["multi_err"] = ""
	o["json_multi_raw"] = ""
	if o["ok"] != true && has("multi") {
		os.WriteFile(file0, []byte(text), 0644)
		pm := runFile(home, config, []string{"print", "--no-style", "--no-warn"}, file, file0)
		o["multi_code"] = pm.code
		o["multi_err"] = bytesToSym(pm.err)
		jm := runFile(home, config, []string{"json"}, file, file0)
		o["json_multi_raw"] = jm.out
	}

	if has("channels") {
		channels(o, home, config, dir, file, text)
	}
	// the same views on a machine with several CPUs (the context then parses with that many workers)
	cfg4, c4Err := app.NewConfig(app.FromDeterminedValues{NumCpus: 4}, app.FromEnvVars{GetVar: func(k string) string {
		if k == "NO_COLOR" {
			return "1"
		}
		return ""
	}}, app.FromConfigFile{FileContents: ""})
	if c4Err != nil {
		panic(c4Err.Error())
	}
	if has("cpus") {
		pp := runFile(home, cfg4, []string{"print", "--no-style", "--no-warn"}, file)
		o["print_par_code"] = pp.code
		o["print_par"] = bytesToSym(pp.out)
		if has("json") {
			o["json_sym"] = bytesToSym(j.out)
			o["json_par_sym"] = bytesToSym(runFile(home, cfg4, []string{"json"}, file).out)
		}
	}

	// a reconcile that changes nothing must reproduce the text
	o["noop"] = ""
	o["noop_ran"] = false
	rs, bs, errs := serial.Parse(text)
	if errs == nil && len(rs) > 0 {
		var first klog.Date = rs[0].Date()
		res, aErr := app.ApplyReconciler(rs, bs, []reconciling.Creator{reconciling.NewReconcilerAtRecord(first)})
		if aErr == nil {
			o["noop"] = bytesToSym(res.AllSerialised)
			o["noop_ran"] = true
		}
	}
	// the same through the application context and a real file: read, reconcile (change nothing), write back;
	// with one CPU and with several (the context then parses in parallel)
	o["noop_file_ran"] = false
	o["noop_files"] = []string{}
	if errs == nil && len(rs) > 0 && has("noop") {
		got := []string{}
		ran := true
		for _, cpus := range []int{1, 3} {
			f3 := filepath.Join(dir, "n.klg")
			os.WriteFile(f3, []byte(text), 0644)
			cfgN, cErr := app.NewConfig(app.FromDeterminedValues{NumCpus: cpus}, app.FromEnvVars{GetVar: func(string) string { return "" }}, app.FromConfigFile{FileContents: ""})
			if cErr != nil {
				panic(cErr.Error())
			}
			ctx := app.NewContext(app.NewFileOrPanic(home), app.Meta{}, tf.NewStyler(tf.COLOUR_THEME_NO_COLOUR), cfgN)
			res, rErr := ctx.ReconcileFile(app.FileOrBookmarkName(f3), []reconciling.Creator{reconciling.NewReconcilerAtRecord(rs[0].Date())})
			if rErr != nil {
				ran = false
				continue
			}
			b, _ := os.ReadFile(f3)
			got = append(got, bytesToSym(string(b)), bytesToSym(res.AllSerialised))
		}
		o["noop_file_ran"] = ran
		o["noop_files"] = got
	}
	// parallel parsing of the same text (the errors and records must be those of the serial parser)
	par := []M{}
	base := normalise(projectParse(serial, text))
	for _, w := range list(c, "workers") {
		n := num(M{"n": w}, "n")
		p := projectParse(parser.NewParallelParser(n), text)
		eq := reflect.DeepEqual(normalise(p), base)
		pm := M{"n": n, "equal": eq}
		par = append(par, pm)
	}
	o["par"] = par
	return o
}
