package main

import (
	"os"
	"path/filepath"
	"time"

	"github.com/jotaen/klog/klog"
	"github.com/jotaen/klog/klog/app"
	tf "github.com/jotaen/klog/klog/app/cli/terminalformat"
	kmain "github.com/jotaen/klog/klog/app/main"
	"github.com/jotaen/klog/klog/parser"
	"github.com/jotaen/klog/klog/parser/reconciling"
)

func init() {
	handlers["view"] = hView
}

type cliResult struct {
	code int
	out  string
	err  string
}

// runFile runs one command line (args + file) through klog.Run.
func runFile(home string, config app.Config, args []string, file string) cliResult {
	var code int
	var runErr error
	var pmsg string
	out := captureStdout(func() {
		pmsg = try(func() {
			code, runErr = kmain.Run(app.NewFileOrPanic(home), app.Meta{}, config, append(append([]string{}, args...), file))
		})
	})
	if pmsg != "" {
		panic(pmsg)
	}
	r := cliResult{code: code, out: out}
	if runErr != nil {
		r.err = runErr.Error()
	}
	return r
}

// view: {text}: the parse result together with what the user-facing views show:
// canonical print (and print of the print), JSON, terminal error report, no-op reconcile.
func hView(c M) M {
	text := symToBytes(str(c, "text"))
	serial := parser.NewSerialParser()
	o := projectParse(serial, text)
	dir, err := os.MkdirTemp("", "kdrive")
	if err != nil {
		panic(err)
	}
	defer os.RemoveAll(dir)
	home := filepath.Join(dir, "home")
	os.Mkdir(home, 0755)
	file := filepath.Join(dir, "f.klg")
	os.WriteFile(file, []byte(text), 0644)
	fakeNow = time.Date(2020, 1, 1, 12, 0, 0, 0, time.UTC)
	app.VerifNow = func() time.Time { return fakeNow }
	config := app.NewDefaultConfig(tf.COLOUR_THEME_NO_COLOUR)

	p1 := runFile(home, config, []string{"print", "--no-style", "--no-warn"}, file)
	o["print_code"] = p1.code
	o["print"] = bytesToSym(p1.out)
	o["print_err"] = bytesToSym(p1.err)
	o["print2"] = ""
	o["reparsed"] = M{"ok": false, "records": []M{}}
	if p1.code == 0 && len(p1.out) > 0 {
		file2 := filepath.Join(dir, "g.klg")
		os.WriteFile(file2, []byte(p1.out), 0644)
		p2 := runFile(home, config, []string{"print", "--no-style", "--no-warn"}, file2)
		o["print2"] = bytesToSym(p2.out)
		rp := projectParse(serial, p1.out)
		o["reparsed"] = M{"ok": rp["ok"], "records": rp["records"]}
	}
	j := runFile(home, config, []string{"json"}, file)
	o["json_code"] = j.code
	o["json_raw"] = j.out // decoded by the supervisor with an independent JSON parser
	jp := runFile(home, config, []string{"json", "--pretty"}, file)
	o["json_pretty_raw"] = jp.out
	o["file"] = file

	// a reconcile that changes nothing must reproduce the text
	o["noop"] = ""
	o["noop_ran"] = false
	rs, bs, errs := serial.Parse(text)
	if errs == nil && len(rs) > 0 {
		var first klog.Date = rs[0].Date()
		res, aErr := app.ApplyReconciler(rs, bs, []reconciling.Creator{reconciling.NewReconcilerAtRecord(first)})
		if aErr == nil {
			o["noop"] = bytesToSym(res.AllSerialised)
			o["noop_ran"] = true
		}
	}
	return o
}
