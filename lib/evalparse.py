"""Turn the text output of read-only klog commands into structured values (recording only, no judging)."""
import json, re
from vlib import denull

MONTHS = ["Jan", "Feb", "Mar", "Apr", "May", "Jun", "Jul", "Aug", "Sep", "Oct", "Nov", "Dec"]
DAYS = ["Mon", "Tue", "Wed", "Thu", "Fri", "Sat", "Sun"]
ANSI = re.compile(r"\x1b\[[0-9;]*m")
DUR = re.compile(r"^([-+]?)(?:(\d+)h)?(?:(\d+)m)?$")


def dur_to_mins(s):
    s = s.strip().rstrip("!")
    m = DUR.match(s)
    if not m or (m.group(2) is None and m.group(3) is None):
        return None
    v = int(m.group(2) or 0) * 60 + int(m.group(3) or 0)
    return -v if m.group(1) == "-" else v


def num(s):
    s = s.strip().rstrip("!")
    try:
        return int(s)
    except ValueError:
        return dur_to_mins(s)


def parse_total(out):
    r = {"total": None, "should": None, "diff": None, "count": None, "rest": []}
    for l in out.split("\n"):
        m = re.match(r"^(Total|Should|Diff): (.*)$", l)
        if m:
            r[m.group(1).lower()] = num(m.group(2))
            continue
        m = re.match(r"^\(In (\d+) records?\)$", l)
        if m:
            r["count"] = int(m.group(1))
            continue
        if l.strip():
            r["rest"].append(l)
    return r


def parse_report(out, kind):
    """rows: [y, sub, day, cells...] where omitted year/month are filled in from the rows above"""
    lines = out.split("\n")
    rows, grand, sep = [], None, False
    y = mo = None
    for l in lines:
        if not l.strip():
            continue
        if set(l.strip()) <= set("= "):
            sep = True
            continue
        if sep:
            grand = [num(x) for x in l.split()]
            sep = False
            break
        if re.match(r"^\s*Total(\s+Should\s+Diff)?\s*$", l):
            continue
        t = l.split()
        cells = None
        if kind == "day":
            m = re.match(r"^\s*(\d{1,4})?\s*(%s)?\s*(%s)\s+(\d+)\.\s*(.*)$" % ("|".join(MONTHS), "|".join(DAYS)), l)
            if not m:
                rows.append({"bad": l})
                continue
            if m.group(1):
                y = int(m.group(1))
            if m.group(2):
                mo = MONTHS.index(m.group(2)) + 1
            rows.append({"y": y, "sub": mo, "d": int(m.group(4)), "wd": DAYS.index(m.group(3)) + 1, "cells": [num(x) for x in m.group(5).split()]})
        elif kind == "week":
            m = re.match(r"^\s*(-?\d+)?\s*Week\s+(\d+)\s*(.*)$", l)
            if not m:
                rows.append({"bad": l})
                continue
            if m.group(1):
                y = int(m.group(1))
            rows.append({"y": y, "sub": int(m.group(2)), "d": 0, "wd": 0, "cells": [num(x) for x in m.group(3).split()]})
        elif kind == "month":
            m = re.match(r"^\s*(\d{1,4})?\s*(%s)\s*(.*)$" % "|".join(MONTHS), l)
            if not m:
                rows.append({"bad": l})
                continue
            if m.group(1):
                y = int(m.group(1))
            rows.append({"y": y, "sub": MONTHS.index(m.group(2)) + 1, "d": 0, "wd": 0, "cells": [num(x) for x in m.group(3).split()]})
        elif kind == "quarter":
            m = re.match(r"^\s*(\d{1,4})?\s*Q(\d)\s*(.*)$", l)
            if not m:
                rows.append({"bad": l})
                continue
            if m.group(1):
                y = int(m.group(1))
            rows.append({"y": y, "sub": int(m.group(2)), "d": 0, "wd": 0, "cells": [num(x) for x in m.group(3).split()]})
        else:
            m = re.match(r"^\s*(\d{1,4})\s+(.*)$", l)
            if not m:
                rows.append({"bad": l})
                continue
            rows.append({"y": int(m.group(1)), "sub": 0, "d": 0, "wd": 0, "cells": [num(x) for x in m.group(2).split()]})
    ok = all("bad" not in r and all(c is not None for c in r["cells"]) for r in rows) and (grand is None or all(g is not None for g in grand))
    rows = [r for r in rows if "bad" not in r]
    for r in rows:
        r["cells"] = [c if c is not None else -999999 for c in r["cells"]]
    return {"parsed": ok, "rows": rows, "grand": [g if g is not None else -999999 for g in (grand or [])], "has_grand": grand is not None}


def parse_tags(out):
    """rows of `klog tags --values --count --decimal`: [name, value, total, count]"""
    rows, ok, cur = [], True, ""
    for l in out.split("\n"):
        if not l.strip():
            continue
        m = re.match(r"^(.*?)\s+(-?\d+)\s+\((\d+)\)\s*$", l)
        if not m:
            ok = False
            continue
        label = m.group(1)
        if label.startswith("#"):
            cur = label[1:].strip()
            rows.append({"name": cur, "value": "", "total": int(m.group(2)), "count": int(m.group(3))})
        else:
            rows.append({"name": cur, "value": label.strip(), "total": int(m.group(2)), "count": int(m.group(3))})
    return {"parsed": ok, "rows": rows}


def parse_today(out):
    r = {"parsed": True, "rows": {}}
    for l in out.split("\n"):
        m = re.match(r"^(Today|Yesterday|Other|All)\s+(.*)$", l)
        if m:
            cells = m.group(2).split()
            r["rows"][m.group(1).lower()] = [c for c in cells]
    for k in ("other", "all"):
        if k not in r["rows"]:
            r["parsed"] = False
    r["current"] = "today" if "today" in r["rows"] else ("yesterday" if "yesterday" in r["rows"] else "")
    cur = r["rows"].get(r["current"], ["n/a"])
    r["cur_na"] = cur[0] == "n/a"
    r["cur"] = [num(c) if num(c) is not None else -999999 for c in cur[:3]] if not r["cur_na"] else []
    r["oth"] = [num(c) if num(c) is not None else -999999 for c in r["rows"].get("other", [])[:3]]
    r["all"] = [num(c) if num(c) is not None else -999999 for c in r["rows"].get("all", [])[:3]]
    del r["rows"]
    return r


def parse_pwt(out):
    """print --with-totals: per line the value left of the bar (minutes or -1000000 for none) and the text right of it"""
    rows, ok = [], True
    for l in out.split("\n"):
        if "|" not in l:
            if l.strip():
                ok = False
            continue
        left, right = l.split("  |  ", 1) if "  |  " in l else (l.split("|", 1)[0], l.split("|", 1)[1])
        v = dur_to_mins(left.strip()) if left.strip() else None
        if left.strip() and v is None:
            ok = False
        rows.append({"has": v is not None, "v": v if v is not None else 0, "text": right})
    return {"parsed": ok, "rows": rows}


def decode_json(raw):
    try:
        v = json.loads(raw)
        ok = isinstance(v, dict) and set(v.keys()) == {"records", "errors"}
    except Exception:
        v, ok = None, False
    if not ok:
        return {"wellformed": False, "records_null": True, "errors_null": True, "records": [], "errors": [], "tags_sorted": True}
    recs = v["records"] or []
    sorted_ok = True
    for r in recs:
        if isinstance(r, dict):
            if r.get("tags") != sorted(r.get("tags") or []):
                sorted_ok = False
            for e in r.get("entries") or []:
                if isinstance(e, dict) and e.get("tags") != sorted(e.get("tags") or []):
                    sorted_ok = False
                if isinstance(e, dict):
                    for k, d in (("start", ""), ("start_mins", 0), ("end", ""), ("end_mins", 0)):
                        e.setdefault("has_" + k, k in e)
                        e.setdefault(k, d)
    return {"wellformed": True, "records_null": v["records"] is None, "errors_null": v["errors"] is None,
            "records": denull(recs), "errors": denull(v["errors"] or []), "tags_sorted": sorted_ok}


def visible_width(s):
    import unicodedata
    return len(s)


def postprocess(ev):
    o = ev.get("obs", {})
    for r in o.get("runs", []):
        rid = r["id"]
        out = r["out"]
        plain = ANSI.sub("", out)
        r["stripped"] = plain
        r["has_esc"] = "\x1b" in plain
        lines = [l for l in plain.split("\n") if l != ""]
        r["widths"] = [len(l) for l in lines]
        kind = rid.split(":")[0]
        if kind == "json":
            r["json"] = decode_json(out)
        elif kind == "total":
            r["total"] = parse_total(plain)
            for k in ("total", "should", "diff", "count"):
                if r["total"][k] is None:
                    r["total"][k] = -999999
        elif kind == "report":
            r["report"] = parse_report(plain, rid.split(":")[1])
        elif kind == "tags":
            r["tags"] = parse_tags(plain)
        elif kind == "today":
            r["today"] = parse_today(plain)
        elif kind == "pwt":
            r["pwt"] = parse_pwt(plain)
        elif kind == "warn":
            r["warn"] = [{"date": m.group(1), "msg": m.group(2)} for m in
                         (re.match(r"^\[WARNING\] (\S+): (.*)$", l) for l in plain.split("\n")) if m]
    return ev
