"""One function per property: which specification modules generate, which judge."""
import json, os
import vlib
import evalparse
from vlib import log

CHECKS = {}
JUDGES = {}


def check(pid, judge_module):
    def deco(f):
        CHECKS[pid] = f
        JUDGES[pid] = judge_module
        return f
    return deco


def replay(run, path):
    """re-execute one recorded case alone and judge it again"""
    rec = json.load(open(path, encoding="utf-8"))
    obs = run.path("replay.obs")
    if isinstance(rec["case"], dict) and "orig" in rec["case"]:
        # a step of a command history: re-run the history, judge the same step
        orig = rec["case"]["orig"]
        full = run.run_one(orig)
        with open(obs, "w", encoding="utf-8") as f:
            f.write(json.dumps(full, ensure_ascii=False) + "\n")
        events = [json.loads(l) for l in open(flatten_cli(run, obs, "replay-events.ndjson"), encoding="utf-8")]
        ev = events[min(rec["case"].get("step", 0), len(events) - 1)]
    else:
        ev = run.run_one(rec["case"])
    with open(obs, "w", encoding="utf-8") as f:
        f.write(json.dumps(ev, ensure_ascii=False) + "\n")
    flagged = run.judge(JUDGES[run.prop], obs, env={"KV_RULES": run.prop})
    print("case:     ", json.dumps(rec["case"], ensure_ascii=False))
    print("observed: ", json.dumps(ev.get("obs"), ensure_ascii=False), "panic:", ev.get("panic"))
    if flagged:
        print("rules violated:", flagged[0][1])
        print("VIOLATION property=%s replay=%s" % (run.prop, path))
        return 1
    print("accepted by the specification")
    return 0


@check("C16", "Trace_Values")
def c16(run):
    cases, r = run.mc("MC_Values", {})
    obs = run.drive(cases)
    flagged = run.judge("Trace_Values", obs)
    run.exhaustive = run.tier == "thorough"
    run.assumptions = ["Go's regexp \\d and unicode tables behave as documented",
                       "range/plus rows are run-length encoded by the driver (lossless)"]
    return vlib.finish(run, flagged, rule_text=
        "TLC enumerates the literal domains of C16 (all 132000 time strings, all 8640 (offset,notation) values, "
        "duration strings sign x 0-120h x 0-130m in three layouts, date strings per year with all separators, "
        "range rows and plus rows per start offset; quick tier samples rows/years by seed) and every observation "
        "of the real value types is judged by TLC against KValues/KCalendar")


@check("C15", "Trace_Calendar")
def c15(run):
    cases, r = run.mc("MC_Calendar", {})
    obs = run.drive(cases, case_timeout=600)
    flagged = run.judge("Trace_Calendar", obs, chunk=700)
    run.exhaustive = run.tier == "thorough"
    run.assumptions = ["per-date tables are run-length encoded by the driver (lossless)",
                       "periods whose true bounds leave 0000-01-01..9999-12-31 are compared after clipping to that range; "
                       "Previous() is judged only where the previous period is representable"]
    return vlib.finish(run, flagged, rule_text=
        "one TLC state per calendar year (thorough: all 10000 years = all 3652425 dates; quick: boundary years plus a "
        "seed-rotated 1-in-40 sample): weekday, ISO week/week-year, quarter, week/month/quarter/year period bounds, "
        "previous periods, report-bucket hashes and all period pattern strings of the year, recorded from klog.Date / "
        "period.* and judged by TLC against KCalendar; bucket classes compared globally over a window of years")


# the groups of observations of the `view` driver each property's rules read
WANTS = {"C08": ["noop"], "C09": ["channels", "cpus"], "C10": ["json", "multi", "channels"], "C20": ["json", "channels", "cpus"]}


def parse_family(run, prop, want, rule_text, extra_cases=None, kind=None):
    cases, r = run.mc("MC_Parse", {"KV_WANT": want})
    if kind:
        lines = [json.loads(l) for l in open(cases, encoding="utf-8") if l.strip()]
        with open(cases, "w", encoding="utf-8") as f:
            for i, c in enumerate(lines):
                # quick tier: the views of every second generated document (rotating with the seed)
                if run.tier == "quick" and prop in ("C08", "C09") and (i + run.seed) % 2 != 0:
                    continue
                c["kind"] = kind
                c["want"] = WANTS.get(prop, [])
                if prop == "C10":
                    c["workers"] = list(range(2, 34))
                f.write(json.dumps(c, ensure_ascii=False) + "\n")
    if extra_cases:
        with open(cases, "a", encoding="utf-8") as f:
            for c in extra_cases:
                f.write(json.dumps(c, ensure_ascii=False) + "\n")
    # code -> spec: larger random documents (up to ~40 records) glued together from the generated documents and
    # mutants, with zero to three faults; the recogniser KParse classifies each of them when judging
    import random
    rnd = random.Random(run.seed)
    pool = [json.loads(l) for l in open(cases, encoding="utf-8") if l.strip()]
    good = [c["text"] for c in pool if c.get("claim") == "Conforming"]
    bad = [c["text"] for c in pool if c.get("claim") == "Violating"]
    if not good:
        good = ["2020-01-01\n    1h\n", "2020-01-02 (8h!)\nSummary\n\t8:00 - 9:00 x\n\t\tmore #t\n", "2020/01/03\n  -30m\n  9:00-?\n",
                "2019-12-31 (-1h!)\nLine 1\nLine 2\n", "2020-02-29\n   <23:00 - 1:00> long\n      cont\n   0m\n"]
    nbig = 0
    if good:
        with open(cases, "a", encoding="utf-8") as f:
            for i in range(120 if run.tier == "quick" else 600):
                eol = rnd.choice(["\n", "\r\n"])
                parts = [rnd.choice(good) for _ in range(rnd.randrange(3, 25))]
                nf = 0 if want == "valid" else (rnd.randrange(1, 4) if want == "invalid" else rnd.randrange(0, 3))
                if want == "invalid" and i % 6 == 0:
                    nf = rnd.randrange(7, 13)        # many faulty lines in one text
                for _ in range(nf if bad else 0):
                    parts[rnd.randrange(len(parts))] = rnd.choice(bad)
                sep = rnd.choice(["", eol, eol + "  " + eol])
                text = "".join(p + ("" if p.endswith("\n") else eol) + eol + sep for p in parts)
                f.write(json.dumps({"kind": kind or "parse", "text": text, "claim": "random", "line": 0, "workers": list(range(2, 19)) if prop == "C10" else [2, 7], "channels": True,
                                    "want": WANTS.get(prop, [])},
                                   ensure_ascii=False) + "\n")
                nbig += 1
            # documents of several kilobytes (more than a kilobyte per worker of the parallel parser)
            for i in range(12 if run.tier == "quick" else 40):
                parts = [rnd.choice(good) for _ in range(rnd.randrange(70, 130))]
                if want != "valid" and (want == "invalid" or i % 3 == 0) and bad:
                    parts[rnd.randrange(len(parts))] = rnd.choice(bad)
                text = "".join(p + ("" if p.endswith("\n") else "\n") + "\n" for p in parts)
                f.write(json.dumps({"kind": kind or "parse", "text": text, "claim": "random", "line": 0, "workers": [2, 3, 4, 5, 8],
                                    "channels": True, "want": WANTS.get(prop, [])}, ensure_ascii=False) + "\n")
                nbig += 1
    run.extra["random_large_documents"] = nbig
    obs = run.drive(cases)
    if kind == "view":
        run.postprocess(obs, vlib.decode_json_fields)
    flagged = run.judge("Trace_Parse", obs, env={"KV_RULES": prop}, chunk=6000)
    return vlib.finish(run, flagged, rule_text=rule_text)


@check("C01", "Trace_Parse")
def c01(run):
    return parse_family(run, "C01", "all",
        "documents rendered by the generator KGrammar (value x summary shape x indentation x line ending x final newline, "
        "headline x record summary, entry pairs, multi-record layouts with blank-line variants) and every rule-violating "
        "mutant of the base documents (bad dates, should-totals, values, indentation, blank-start summaries, blank lines "
        "inside records, stray text, second open range at every line); generator and recogniser KParse are cross-checked "
        "by TLC; the real parser's result for every document is judged by TLC (accept / reject / exact data)")


@check("C06", "Trace_Parse")
def c06(run):
    cases, r = run.mc("MC_Tokens", {})
    cases2, r2 = run.mc("MC_Parse", {"KV_WANT": "all"}, out_name="cases2.ndjson")
    with open(cases, "a", encoding="utf-8") as f:
        for i, l in enumerate(open(cases2, encoding="utf-8")):
            if run.tier == "quick" and (i + run.seed) % 4 != 0:
                continue
            c = json.loads(l)
            f.write(json.dumps({"kind": "fuzz", "text": c["text"]}, ensure_ascii=False) + "\n")
    # code -> spec: seeded random byte strings and random splices of generated documents (judged by the same rules)
    import random
    rnd = random.Random(run.seed)
    docs = [json.loads(l)["text"] for l in open(cases2, encoding="utf-8")]
    frag = ["2020-01-01", "\n", "\r\n", "    ", "\t", "  ", "1h", "8:00 - 9:00", " - ?", "(8h!)", "#tag=\"v\"", "\u00a0", "\ue0ff", "\ue0e4\ue0b8",
            "\ue000", "\r", "9" * 25 + "h", "-", "<", ">", "am", ":", "\u65e5", "x" * 300]
    def sym(b):
        return chr(b) if 32 <= b < 127 or b in (9, 10, 13) else chr(0xE000 + b)
    nrand = 4000 if run.tier == "quick" else 300000
    with open(cases, "a", encoding="utf-8") as f:
        for i in range(nrand):
            k = i % 4
            if k == 0:      # raw random bytes
                t = "".join(sym(rnd.randrange(256)) for _ in range(rnd.randrange(1, 40)))
            elif k == 1:    # random fragments
                t = "".join(rnd.choice(frag) for _ in range(rnd.randrange(1, 12)))
            elif k == 2:    # a generated document with a random byte spliced in
                d = rnd.choice(docs)
                p = rnd.randrange(len(d) + 1)
                t = d[:p] + sym(rnd.randrange(256)) + d[p:]
            else:           # two generated documents cut and glued
                a, b = rnd.choice(docs), rnd.choice(docs)
                t = a[:rnd.randrange(len(a) + 1)] + b[rnd.randrange(len(b) + 1):]
            f.write(json.dumps({"kind": "fuzz", "text": t}, ensure_ascii=False) + "\n")
        f.write(json.dumps({"kind": "fuzz", "text": "2020-01-01\n    1h " + "long " * 4000 + "\n"}, ensure_ascii=False) + "\n")
        # documents of many records with one fault near the beginning and several CPUs (every chunk of the parallel parser
        # holds complete records; the commands must still refuse the text)
        bad_docs = [d for d in docs if d.strip()]
        for i in range(80 if run.tier == "quick" else 3000):
            parts = [rnd.choice(bad_docs).strip("\n") for _ in range(rnd.randrange(8, 40))]
            mut = rnd.randrange(0, 3)
            parts[mut] = parts[mut] + "\n    8:60 - 9:00 broken"
            f.write(json.dumps({"kind": "fuzz", "text": "\n\n".join(parts) + "\n", "cpus": rnd.choice([2, 3, 4, 8, 16])}, ensure_ascii=False) + "\n")
        # random conforming documents rich in values (should-totals from tiny to huge, entries of every width, open
        # ranges, shifted times, dates around the clock's date), every read-only command incl. the --now variants
        import datetime
        shoulds = ["", "", " (8h!)", " (100h!)", " (-3h!)", " (0m!)", " (30m!)", " (2000h!)", " (1m!)", " (-500h15m!)"]
        ents = ["1h", "15m", "7h45m", "-8h30m", "8:00 - 16:30", "<23:00 - 1:00>", "0m", "23:59 - 23:59>", "123h", "-1m",
                "<0:00 - 23:59>", "12:00am - 11:59pm", "1h #a", "9:00-9:00 #a=1", "-0m", "+5h", "99h59m", "0:00 - 0:00>", "3m x\n        y #b"]
        opens = ["8:00 - ?", "<23:30 - ?", "0:00 - ???", "11:59 - ? #a", "12:30> - ?", "12:00 - ?"]
        for i in range(600 if run.tier == "quick" else 40000):
            day0 = datetime.date(2020, 1, 1) + datetime.timedelta(days=rnd.choice([0, 0, 0, 58, 59, 365, -1, 4, -366]))
            recs = []
            for off in sorted(rnd.sample([-400, -60, -8, -7, -2, -1, 0, 0, 1, 2, 6, 31], rnd.randrange(1, 5))):
                d = day0 + datetime.timedelta(days=off)
                es = [rnd.choice(ents) for _ in range(rnd.randrange(0, 4))]
                if rnd.random() < (0.6 if off in (0, -1) else 0.04):
                    es.insert(rnd.randrange(len(es) + 1), rnd.choice(opens))
                head = d.strftime(rnd.choice(["%Y-%m-%d", "%Y/%m/%d"])) + rnd.choice(shoulds)
                recs.append(head + "\n" + (rnd.choice(["", "Text #a #c=x\n"])) + "".join("    " + e + "\n" for e in es))
            now = "%sT%02d:%02d:%02d" % (day0.isoformat(), rnd.choice([0, 0, 7, 12, 12, 23]), rnd.choice([0, 1, 30, 59]), rnd.randrange(60))
            f.write(json.dumps({"kind": "fuzz", "text": "\n".join(recs), "all": True, "now": now, "cpus": rnd.choice([1, 1, 2, 4])}, ensure_ascii=False) + "\n")
    obs = run.drive(cases, case_timeout=300, env={"KDRIVE_NCMDS": "4" if run.tier == "quick" else "0"})
    flagged = run.judge("Trace_Parse", obs, env={"KV_RULES": "C06"}, chunk=20000)
    run.assumptions = ["coverage-guided mutation is not part of this technique; the input space is the token language, "
                       "the grammar's documents and mutants, and (thorough) seeded random bytes",
                       "absence of panics and hangs is observed by the driver"]
    return vlib.finish(run, flagged, rule_text=
        "all token sequences up to the tier's length over a 24-token alphabet of klog fragments (invalid UTF-8 symbols, NUL, "
        "lone CR, huge numbers) plus generated documents and mutants, seeded random byte strings, random fragment sequences and random "
        "splices of generated documents: serial and parallel parse (2, 3, len+1 workers), "
        "for accepted input 25 read-only commands (incl. the --now variants) through the real CLI entry point, for rejected "
        "input both error renderings; plus seeded random value-rich conforming documents (should-totals from 0m to thousands of "
        "hours, entries of every width, open ranges, shifted times) around a random clock with all 25 commands")


@check("C08", "Trace_Parse")
def c08(run):
    return parse_family(run, "C08", "valid", kind="view", rule_text=
        "every generated conforming document (all layouts: indentation styles, LF/CRLF, blank-line runs incl. whitespace-only "
        "lines, leading/trailing blanks, with/without final newline): the blocks returned by the real parser are compared "
        "line by line (text, ending, global line index) with the specification's block segmentation, and a reconcile that "
        "changes nothing must return the identical text")


@check("C09", "Trace_Parse")
def c09(run):
    return parse_family(run, "C09", "valid", kind="view", rule_text=
        "every generated conforming document is printed with `klog print --no-style` through the real CLI; the output is "
        "re-parsed (same records incl. notation), printed again (fixed point), checked for canonical layout and compared "
        "with the specification's canonical serialisation KPrint")


@check("C10", "Trace_Parse")
def c10(run):
    return parse_family(run, "C10", "invalid", kind="view", rule_text=
        "every rule-violating mutant of the base documents (each fault kind at each line) and every generated "
        "non-conforming document: per reported error line/text/column/length bounds, ascending order, first error on the "
        "first non-conforming line (as computed by the recogniser KParse), and the terminal and JSON renderings of the same errors")


def flatten_cli(run, obs_path, out_name="events.ndjson"):
    """one event per executed step of every history: the file before is the observed file after the previous step"""
    out = run.path(out_name)
    n = 0
    with open(obs_path, encoding="utf-8") as f, open(out, "w", encoding="utf-8") as g:
        for line in f:
            if not line.strip():
                continue
            rec = json.loads(line)
            case, o = rec["case"], rec.get("obs", {})
            fname = "f.klg"
            pre = case["files"].get(fname, "")
            steps = o.get("steps", [])
            if rec.get("panic"):
                st0 = case["cmds"][0]
                ev = {"case": {"pre": pre, "cmd": st0["cmd"], "now": st0["nowv"], "cfg": st0["cfgv"], "args": st0["args"],
                               "pred": st0.get("pred", {"st": "unspec", "text": ""}), "predpre": st0.get("predpre", ""),
                               "step": 0, "nofile": fname not in case["files"], "hist": [s["args"] for s in case["cmds"]], "orig": case},
                      "obs": {}, "panic": rec["panic"], "site": rec.get("site", "")}
                g.write(json.dumps(ev, ensure_ascii=False) + "\n")
                n += 1
                continue
            for i, st in enumerate(steps):
                cs = case["cmds"][i]
                post = st["files"].get(fname, "")
                parsed = st.get("parsed", {}).get(fname, {"ok": False, "records": []})
                ev = {"case": {"pre": pre, "cmd": cs["cmd"], "now": cs["nowv"], "cfg": cs["cfgv"], "args": cs["args"],
                               "pred": cs.get("pred", {"st": "unspec", "text": ""}), "predpre": cs.get("predpre", ""),
                               "step": i, "nofile": fname not in case["files"] and i == 0,
                               "orig": case},
                      "obs": {"post": post, "code": st["code"], "err": st["err"][:300], "touched": fname in st.get("touched", []),
                              "parsed_ok": bool(parsed.get("ok")), "records": parsed.get("records", []),
                              "repeat_equal": bool(o.get("repeat_equal", True)), "ticks_run": st.get("ticks_run", 0),
                              "tick_files": st.get("tick_files", []), "tick_pre": st.get("tick_pre", [])},
                      "panic": ""}
                g.write(json.dumps(ev, ensure_ascii=False) + "\n")
                n += 1
                pre = post
    return out


def cli_family(run, rules, modes, rule_text, flagged=None, full_model=False):
    flagged = flagged or []
    cfg = "MC_Cli" if full_model else "MC_CliLite"
    for mode in modes:
        if mode == "long":
            # random walks through the command model (TLC simulation mode): histories of 12 commands
            n = 16 if run.tier == "quick" else 80
            cases, r = run.mc("MC_Cli", {"KV_MODE": mode}, out_name="cases-%s.ndjson" % mode, workers=1, cfg="MC_CliLite",
                              simulate="num=%d" % n, extra=["-depth", "13", "-seed", str(run.seed)], timeout=5400)
        else:
            # the refinement / frame / style action property of the text-level model is checked on the pair
            # histories in the quick tier and on everything in the thorough tier
            use = cfg if (mode != "single" or run.tier == "thorough") else "MC_CliLite"
            cases, r = run.mc("MC_Cli", {"KV_MODE": mode}, out_name="cases-%s.ndjson" % mode, cfg=use)
        # the number of CPUs (the context then parses with that many workers) is a parameter of the environment
        # that no result may depend on: it rotates over the cases and travels with them
        ls = [json.loads(l) for l in open(cases, encoding="utf-8") if l.strip()]
        with open(cases, "w", encoding="utf-8") as f:
            for i, c in enumerate(ls):
                c.setdefault("cpus", (1, 2, 1, 3, 4, 1, 8, 2)[(i + run.seed) % 8])
                # so is the way the target file is named: every fifth history names it through the default
                # bookmark instead of an argument, with unrelated text waiting on standard input
                if (i + run.seed) % 5 == 0 and "f.klg" in c.get("files", {}) and all(s["args"][-1] == "f.klg" for s in c["cmds"]):
                    c["default_bookmark"] = "f.klg"
                    c["stdin"] = "2020-01-01\n    1h from stdin\n"
                    for s in c["cmds"]:
                        s["args"] = s["args"][:-1]
                f.write(json.dumps(c, ensure_ascii=False) + "\n")
        obs = run.drive(cases, obs_name="obs-%s.ndjson" % mode)
        events = flatten_cli(run, obs, "events-%s.ndjson" % mode)
        got = run.judge("Trace_Cli", events, env={"KV_RULES": rules + ",X."}, chunk=4000)
        # X.* rules are the drift metric of the tight text-level model: recorded, never a verdict
        for ev, rl in got:
            real = [x for x in rl if not x.startswith("X.")]
            if "X.Predicted" in rl:
                run.extra["divergences_from_text_model"] = run.extra.get("divergences_from_text_model", 0) + 1
                run.extra.setdefault("divergence_sample", {"args": ev["case"].get("args"), "pre": ev["case"].get("pre", "")[:300],
                                                           "predicted": ev["case"].get("pred"), "observed": ev["obs"].get("post", "")[:300]})
            if real:
                flagged.append((ev, real))
    run.extra.setdefault("divergences_from_text_model", 0)
    return vlib.finish(run, flagged, rule_text=rule_text)


@check("C03", "Trace_Cli")
def c03(run):
    return cli_family(run, "C03", ["single", "pairs"], full_model=True, rule_text="seed files x every mutating command x parameters (single steps) and command pairs; "
        "every executed step judged by TLC against the frame predicates of KReconcile")


@check("C04", "Trace_Cli")
def c04(run):
    return cli_family(run, "C04", ["single", "pairs", "triples", "long"], "random walks of 12 commands (TLC simulation), every executed step of single commands, command pairs and triples "
        "(the file written by one command is the input of the next) judged by TLC against the abstract command model KCli")


@check("C05", "Trace_Cli")
def c05(run):
    return cli_family(run, "C05", ["single", "pairs"], "valid and invalid seed files x all mutating commands incl. failing parameters")


@check("C11", "Trace_Cli")
def c11(run):
    return cli_family(run, "C11", ["single", "pairs"], "seed files with per-record style combinations x mutating commands x config")


@check("C17", "Trace_Cli")
def c17(run):
    pre = eval_family(run, "C17", ["total"], "", finish=False)
    return cli_family(run, "C17,C05.Atomic,C05.Valid", ["clock"], flagged=pre, rule_text="`total --now` / `json --now` on open ranges dated "
        "today / yesterday / older / tomorrow at several clock readings; and " "all 1440 minutes of the day x roundings {none,5,10,12,15,20,30,60} x date "
        "selection {default, --today, --yesterday, --tomorrow} x start/stop/switch x six layouts of open ranges around today x five kinds "
        "of days (ordinary, leap day, 1 March, 31 December, 1 January) plus two days next to daylight-saving switches in Europe/Berlin, every third "
        "minute with the 12-hour convention configured; quick tier: every minute with a rotating rounding/layout/day; thorough tier: every minute x every "
        "rounding x every command with three rotating layouts on a rotating kind of day")


def eval_family(run, rules, modes, rule_text, chunk=1500, flagged=None, finish=True):
    flagged = flagged or []
    for mode in modes:
        cases, r = run.mc("MC_Eval", {"KV_MODE": mode}, out_name="cases-%s.ndjson" % mode)
        if mode == "total":
            # files of several kilobytes evaluated on a machine with several CPUs (the context then parses in parallel,
            # more than a kilobyte per worker): same total, same records
            import datetime
            tmpl = json.loads(open(cases, encoding="utf-8").readline())
            with open(cases, "a", encoding="utf-8") as f:
                for nrec, cpus in ((216, 4), (120, 2), (460, 8)) if run.tier == "quick" else ((216, 4), (120, 2), (460, 8), (217, 4), (300, 3), (1000, 16)):
                    d0 = datetime.date(2018, 1, 1)
                    text = "".join("%s\n    1h\n\n" % (d0 + datetime.timedelta(days=k)).isoformat() for k in range(nrec))
                    c = dict(tmpl, text=text, cpus=cpus, runs=[r for r in tmpl["runs"] if r["id"] in ("json", "total:plain")])
                    f.write(json.dumps(c, ensure_ascii=False) + "\n")
        obs = run.drive(cases, obs_name="obs-%s.ndjson" % mode)
        run.postprocess(obs, evalparse.postprocess)
        got = run.judge("Trace_Eval", obs, env={"KV_RULES": rules + (",X." if mode == "total" else "")}, chunk=chunk)
        # X.* rules measure the conformance of specification modules that go beyond the listed properties
        # (KWarn: the warnings); they are recorded in the evidence, never a verdict
        for ev, rl in got:
            real = [x for x in rl if not x.startswith("X.")]
            for x in rl:
                if x.startswith("X."):
                    k = "beyond_properties_" + x[2:].lower() + "_divergences"
                    run.extra[k] = run.extra.get(k, 0) + 1
                    run.extra.setdefault(k + "_sample", {"text": ev["case"].get("text", "")[:300], "now": ev["case"].get("now")})
            if real:
                flagged.append((ev, real))
        if mode == "total":
            run.extra.setdefault("beyond_properties_warn_divergences", 0)
            run.extra["beyond_properties_warn_events"] = run.extra.get("beyond_properties_warn_events", 0) + vlib.count_lines(obs)
    if not finish:
        return flagged
    return vlib.finish(run, flagged, rule_text=rule_text)


@check("C02", "Trace_Eval")
def c02(run):
    return eval_family(run, "C02", ["total"], "files with every single entry kind and pairs of entry kinds (shifted/unshifted ranges, 24:00 forms, "
        "signed and zero durations, open ranges) x should-totals x record dates relative to now x clock readings; total/should/diff from "
        "`klog total` (decimal and h/m), `klog json`, `print --with-totals`, with and without --now")


@check("C12", "Trace_Eval")
def c12(run):
    return eval_family(run, "C12", ["report", "total", "sort"], "files whose dates are drawn from a pool around ISO-week-year, month, quarter and year boundaries "
        "(unsorted, duplicates, negative totals) x report --aggregate day|week|month|quarter|year with --diff and with --fill, total, today, "
        "print --with-totals")


@check("C13", "Trace_Eval")
def c13(run):
    pre = eval_family(run, "C13", ["shortcuts"], "", finish=False, chunk=3000)
    pre = eval_family(run, "C13,C12.Rows", ["sort"], "", finish=False, chunk=300, flagged=pre)
    return eval_family(run, "C13", ["filter"], flagged=pre, rule_text="all arrangements of three/four records with dates that confuse a field-wise "
        "comparison (same month or day in other years, both notations) x every view that orders by date (json/print/print --with-totals --sort, report); "
        "every relative shortcut (this/last week, month, quarter, year, today, yesterday, tomorrow, "
        "and the alias spellings) at reference dates sweeping two years (quick: boundary days plus every fifth day), on files with records "
        "at the boundaries of the denoted period; and a 14-record file with tags at record and entry level (dates placed relative to a reference date at "
        "offsets -400..+31 days, file order ascending and descending) x every date clause with boundary dates equal to record dates, every "
        "period shape, all relative shortcuts at six reference dates (year/week-year/month/quarter boundaries, leap day), tag clauses with "
        "and without values, entry types, cross-kind combinations, --sort", chunk=4)


@check("C14", "Trace_Eval")
def c14(run):
    pre = eval_family(run, "C14.Match,C14.NoPanic", ["filter"], "", finish=False, chunk=4)
    return eval_family(run, "C14", ["tags"], flagged=pre, rule_text="--tag clauses (names in any case, values, quoted values, two tags, next to date, "
        "shortcut and entry-type clauses) on a 16-record file with tags at record and entry level; all summaries `#` + 4 characters and `x#` + 3 characters + `#a` over a 14-character alphabet "
        "(letters incl. non-ASCII and mixed case, digit, #, =, both quotes, _, -, space, !) plus redundancy patterns in record and entry "
        "summaries: `klog json` tags arrays and `klog tags --values --count --decimal` totals", chunk=3000)


def config_drift(run):
    """beyond the listed properties: the configuration file reader against KConfig (drift metric, never a verdict)"""
    cases, r = run.mc("MC_Config", {}, out_name="cases-config.ndjson")
    obs = run.drive(cases, obs_name="obs-config.ndjson")
    got = run.judge("Trace_Config", obs, chunk=20000)
    run.extra["beyond_properties_config_events"] = vlib.count_lines(obs)
    run.extra["beyond_properties_config_divergences"] = len(got)
    if got:
        ev, rl = got[0]
        run.extra["beyond_properties_config_sample"] = {"rules": rl, "cfg": ev["case"].get("cfg", "")[:200], "env": ev["case"].get("env"),
                                                        "observed": vlib.truncate(ev.get("obs", {}), 400)}


@check("C18", "Trace_Eval")
def c18(run):
    config_drift(run)
    return eval_family(run, "C18", ["style", "report"], "files with Unicode summaries/tags, negative and large totals x 9 commands x schemes "
        "{dark, light, basic, no_colour, NO_COLOR, --no-style}: stripped outputs identical, unstyled outputs free of escapes, equal row widths", chunk=200)


@check("C20", "Trace_Eval")
def c20(run):
    flagged = eval_family(run, "C20", ["total", "tags", "filter"], "", finish=False, chunk=1500)
    # invalid input: error objects vs. the terminal report
    cases, r = run.mc("MC_Parse", {"KV_WANT": "invalid"})
    lines = [json.loads(l) for l in open(cases, encoding="utf-8") if l.strip()]
    with open(cases, "w", encoding="utf-8") as f:
        for c in lines:
            c["kind"] = "view"
            c["want"] = WANTS["C20"]
            f.write(json.dumps(c, ensure_ascii=False) + "\n")
    obs = run.drive(cases, obs_name="obs-invalid.ndjson")
    run.postprocess(obs, vlib.decode_json_fields)
    flagged += run.judge("Trace_Parse", obs, env={"KV_RULES": "C10.Json,C20.Stdin,C20.Cpus"}, chunk=6000)
    # valid input: large documents through standard input and on several CPUs (the JSON document is the same)
    import random
    rnd = random.Random(run.seed)
    pool = [json.loads(l) for l in open(run.mc("MC_Parse", {"KV_WANT": "valid"}, out_name="cases-valid.ndjson")[0], encoding="utf-8") if l.strip()]
    good = [c["text"] for c in pool if c.get("claim") == "Conforming"]
    big = run.path("cases-big.ndjson")
    with open(big, "w", encoding="utf-8") as f:
        for i in range(60 if run.tier == "quick" else 400):
            parts = [rnd.choice(good) for _ in range(rnd.randrange(3, 30) if i % 4 else rnd.randrange(70, 130))]
            text = "".join(p + ("" if p.endswith("\n") else "\n") + "\n" for p in parts)
            f.write(json.dumps({"kind": "view", "text": text, "claim": "random", "line": 0, "workers": [2, 5], "want": WANTS["C20"]}, ensure_ascii=False) + "\n")
    obs2 = run.drive(big, obs_name="obs-big.ndjson")
    run.postprocess(obs2, vlib.decode_json_fields)
    flagged += run.judge("Trace_Parse", obs2, env={"KV_RULES": "C20.Stdin,C20.Cpus"}, chunk=6000)
    run.assumptions = ["well-formedness of the JSON text is decided by Python's json module (an independent parser) before TLC sees the value"]
    return vlib.finish(run, flagged, rule_text="`klog json` on every generated evaluation file (all entry kinds, tags, filters, --sort, --now, "
        "--pretty for invalid input): one well-formed document, exactly one of records/errors non-null, every field of every record and "
        "entry compared with the specification's view, arithmetic relations between the fields; for invalid input the error objects "
        "against the parser's errors")


def bookmarks_post(ev):
    """decode the database file after every step with Python's json (independent of the code under test)"""
    o = ev.get("obs", {})
    w = o.get("workdir", "")
    for st in o.get("steps", []):
        raw = st.get("bookmarks", "")
        st["db_ok"] = True
        st["db"] = []
        if raw.strip():
            try:
                v = json.loads(raw)
                assert isinstance(v, list) and all(isinstance(x, dict) and set(x) == {"name", "path"} for x in v)
                st["db"] = v
            except Exception:
                st["db_ok"] = False
        st.pop("files", None)
        st.pop("bookmarks", None)
    for c in ev.get("case", {}).get("files", {}):
        pass
    ev["case"].pop("files", None)
    return ev


@check("C19", "Trace_Bookmarks")
def c19(run):
    cases, r = run.mc("MC_Bookmarks", {})
    obs = run.drive(cases)
    run.postprocess(obs, bookmarks_post)
    flagged = run.judge("Trace_Bookmarks", obs, chunk=1500)
    run.assumptions = ["histories run in one process per history through the real entry point klog.Run (one context per command); "
                       "the database file is decoded with Python's json module"]
    return vlib.finish(run, flagged, rule_text="all histories of set / set-default / unset / clear up to the tier's depth over 10 name spellings "
        "(with/without @, @@, empty, default, Unicode, spaces, quotes) and 4 target files (space, quote, non-ASCII in the name), with list, info "
        "and bookmark resolution (`klog total @name`, `klog total`) after every step; quick tier: depth 3 with a seed-rotated third of the "
        "operations after the first step")


@check("C07", "Trace_Parse")
def c07(run):
    # (1) the concurrent skeleton: every interleaving of N workers, closer and collector
    n = 6 if run.tier == "thorough" else 5
    for cfg in (["MC_Parallel4", "MC_Parallel5"] + (["MC_Parallel6"] if run.tier == "thorough" else [])):
        r = run.tlc("KParallel", cfg=cfg, env={}, timeout=3000)
        if r["inv_violated"] or "is violated" in str(r.get("fatal")):
            raise vlib.Infra("KParallel violates its own invariants under %s" % cfg)
        run.states += r["distinct"]
        run.transitions += r["generated"]
        run.mc_runs.append({"module": "KParallel/" + cfg, "states_generated": r["generated"], "distinct_states": r["distinct"], "wall_s": r["wall_s"]})
        log("MC KParallel %s: %d generated / %d distinct" % (cfg, r["generated"], r["distinct"]))
    w = run.tlc("KParallel", cfg="MC_ParallelBug", env={}, timeout=600)
    if "ByIndex" not in w["inv_violated"]:
        raise vlib.Infra("non-vacuity witness failed: storing by arrival does not violate ByIndex")
    run.extra["nonvacuity_witness"] = "StoreByArrival=TRUE violates ByIndex at N=3"
    # (2) the data flow: all short byte strings x all worker counts at spec level, replayed into the real parsers
    cases, r = run.mc("MC_Chunks", {"KV_MODE": "bytes"})
    casesL, rL = run.mc("MC_Chunks", {"KV_MODE": "lines"}, out_name="cases-lines.ndjson")
    casesC, rC = run.mc("MC_Chunks", {"KV_MODE": "crlf"}, out_name="cases-crlf.ndjson")
    with open(cases, "a", encoding="utf-8") as f:
        f.write(open(casesL, encoding="utf-8").read())
        f.write(open(casesC, encoding="utf-8").read())
    # (3) generated documents and mutants with several worker counts
    cases2, r2 = run.mc("MC_Parse", {"KV_WANT": "all"}, out_name="cases2.ndjson")
    sched = []
    with open(cases, "a", encoding="utf-8") as f:
        for i, l in enumerate(open(cases2, encoding="utf-8")):
            c = json.loads(l)
            if run.tier == "quick" and (i + run.seed) % 3 != 0:
                continue
            L = len(c["text"].encode("utf-8"))
            # every worker count from 1 to beyond the text length (documents up to 400 bytes), else a spread
            c["workers"] = list(range(1, L + 3)) if L <= 400 else sorted(set([2, 3, 5, 8, 13, L + 1, L // 2, L - 1, L]))
            f.write(json.dumps(c, ensure_ascii=False) + "\n")
            if (i + run.seed) % (40 if run.tier == "quick" else 8) == 0:
                for nn in ((2, 3, 4) if run.tier == "quick" else (2, 3, 4, 5)):
                    sched.append({"kind": "parsched", "text": c["text"], "n": nn, "natural": 3})
        for c in sched:
            f.write(json.dumps(c, ensure_ascii=False) + "\n")
        # long documents with several faults (concatenations of generated documents and mutants): error
        # order, line numbers and renumbering across many chunks
        import random
        rnd = random.Random(run.seed)
        pool = [json.loads(l) for l in open(cases2, encoding="utf-8")]
        good = [c["text"] for c in pool if c["claim"] == "Conforming" and "\r" not in c["text"]]
        bad = [c["text"] for c in pool if c["claim"] == "Violating" and "\r" not in c["text"]]
        for i in range(300 if run.tier == "quick" else 6000):
            parts = [rnd.choice(good).strip("\n") for _ in range(rnd.randrange(3, 15))]
            # every second document stays valid (the blocks are compared only then); the separators between the
            # records are runs of one to three blank lines, some of them whitespace-only
            for _ in range(rnd.randrange(2, 4) if i % 2 == 0 else 0):
                parts[rnd.randrange(len(parts))] = rnd.choice(bad).strip("\n")
            text = ""
            for k, p in enumerate(parts):
                if i % 7 == 3 and (k == 0 or rnd.random() < 0.3):
                    p = "\ufeff" + p               # a byte order mark in front of a headline (files glued together)
                text += p + "\n" + rnd.choice(["\n", "\n", "\n\n", "\n \n", "\n\n\t\n", " \n\n"])
            if rnd.random() < 0.3:
                text = text.rstrip("\n")
            if i % 7 == 5:
                text = text.replace("\n", "\r\r\n")   # a CRLF file converted once more
            elif i % 7 == 6:
                text = text.replace("\n", "\r\n")
            L = len(text.encode("utf-8"))
            f.write(json.dumps({"kind": "parse", "text": text, "workers": list(range(2, 19)) + [L // 3, L // 2 + 1]}, ensure_ascii=False) + "\n")
        # documents of several kilobytes: more than a kilobyte per worker, many blocks per chunk
        for i in range(20 if run.tier == "quick" else 400):
            parts = [rnd.choice(good).strip("\n") for _ in range(rnd.randrange(70, 160))]
            if i % 3 == 0:
                parts[rnd.randrange(len(parts))] = rnd.choice(bad).strip("\n")
            text = "".join(p + "\n" + rnd.choice(["\n", "\n", "\n\n", "\n \n"]) for p in parts)
            if i % 4 == 1:
                text = text.replace("\n", "\r\n")
            f.write(json.dumps({"kind": "parse", "text": text, "workers": [2, 3, 4, 5, 6, 7, 8, 12, 16]}, ensure_ascii=False) + "\n")
        # one heavy case: every arrival order for 6 workers (720) on a multi-record document
        if run.tier == "thorough":
            for c in sched[:40]:
                f.write(json.dumps(dict(c, n=6), ensure_ascii=False) + "\n")
    obs = run.drive(cases, case_timeout=600)
    flagged = run.judge("Trace_Parse", obs, env={"KV_RULES": "C07"}, chunk=20000)
    # (5) "every command behaves identically whatever the number of CPUs": evaluation and mutating-command
    # scenarios are replayed with several CPU counts (the context then uses the parallel parser) and judged
    # by the same rules as with one CPU
    def with_cpus(path, every):
        lines = [json.loads(l) for l in open(path, encoding="utf-8") if l.strip()]
        with open(path, "w", encoding="utf-8") as f:
            for i, c in enumerate(lines):
                if (i + run.seed) % every == 0:
                    c["cpus"] = (2, 3, 4, 7, 16)[i % 5]
                    f.write(json.dumps(c, ensure_ascii=False) + "\n")
    ce, _ = run.mc("MC_Eval", {"KV_MODE": "total"}, out_name="cases-cpu-eval.ndjson")
    with_cpus(ce, 3 if run.tier == "quick" else 1)
    oe = run.drive(ce, obs_name="obs-cpu-eval.ndjson")
    run.postprocess(oe, evalparse.postprocess)
    flagged += run.judge("Trace_Eval", oe, env={"KV_RULES": "C02,C20"}, chunk=1500)
    cc, _ = run.mc("MC_Cli", {"KV_MODE": "pairs"}, out_name="cases-cpu-cli.ndjson")
    with_cpus(cc, 2 if run.tier == "quick" else 1)
    oc = run.drive(cc, obs_name="obs-cpu-cli.ndjson")
    ev = flatten_cli(run, oc, "events-cpu-cli.ndjson")
    flagged += run.judge("Trace_Cli", ev, env={"KV_RULES": "C03,C04,C05"}, chunk=4000)
    run.assumptions = ["the order in which goroutines deliver their results is forced through hook H2 (all permutations up to the tier's N); "
                       "natural schedules are observed, not enumerated",
                       "natural-schedule traces are validated against the projection of KParallel on its send/receive steps"]
    return vlib.finish(run, flagged, rule_text="(1) PlusCal model KParallel of workers/closer/collector model-checked for N=4,5 (thorough 6) incl. "
        "termination under fairness, with a bug witness; (2) KChunks: split/batch/merge on all byte strings up to length 6 (thorough 8) over "
        "{text, blank, LF, CR, 2-byte lead, continuation, invalid} and all texts of up to 5 (thorough 6) whole lines (LF/CRLF, blank, "
        "whitespace-only, unterminated) x every worker count, spec-level equivalence with serial segmentation, each "
        "text replayed into the real parsers; (3) generated documents and mutants x worker counts {2,3,5,8,13,len/2,len-1,len,len+1}; "
        "(4) every arrival order of the batch results forced through hook H2 for N<=4 (thorough 6) and natural schedules under GOMAXPROCS 1/4/16; "
        "(5) evaluation files and command pairs replayed through the CLI configured with 2..16 CPUs and judged by the rules of C02/C20 and C03/C04/C05")
