"""One function per property: which specification modules generate, which judge."""
import json, os
import vlib
from vlib import log

CHECKS = {}
JUDGES = {}


def check(pid, judge_module):
    def deco(f):
        CHECKS[pid] = f
        JUDGES[pid] = judge_module
        return f
    return deco


def replay(run, path):
    """re-execute one recorded case alone and judge it again"""
    rec = json.load(open(path, encoding="utf-8"))
    ev = run.run_one(rec["case"])
    obs = run.path("replay.obs")
    with open(obs, "w", encoding="utf-8") as f:
        f.write(json.dumps(ev, ensure_ascii=False) + "\n")
    flagged = run.judge(JUDGES[run.prop], obs)
    print("case:     ", json.dumps(rec["case"], ensure_ascii=False))
    print("observed: ", json.dumps(ev.get("obs"), ensure_ascii=False), "panic:", ev.get("panic"))
    if flagged:
        print("rules violated:", flagged[0][1])
        print("VIOLATION property=%s replay=%s" % (run.prop, path))
        return 1
    print("accepted by the specification")
    return 0


@check("C16", "Trace_Values")
def c16(run):
    cases, r = run.mc("MC_Values", {})
    obs = run.drive(cases)
    flagged = run.judge("Trace_Values", obs)
    run.exhaustive = run.tier == "thorough"
    run.assumptions = ["Go's regexp \\d and unicode tables behave as documented",
                       "range/plus rows are run-length encoded by the driver (lossless)"]
    return vlib.finish(run, flagged, rule_text=
        "TLC enumerates the literal domains of C16 (all 132000 time strings, all 8640 (offset,notation) values, "
        "duration strings sign x 0-120h x 0-130m in three layouts, date strings per year with all separators, "
        "range rows and plus rows per start offset; quick tier samples rows/years by seed) and every observation "
        "of the real value types is judged by TLC against KValues/KCalendar")


@check("C15", "Trace_Calendar")
def c15(run):
    cases, r = run.mc("MC_Calendar", {})
    obs = run.drive(cases, case_timeout=600)
    flagged = run.judge("Trace_Calendar", obs, chunk=700)
    run.exhaustive = run.tier == "thorough"
    run.assumptions = ["per-date tables are run-length encoded by the driver (lossless)",
                       "periods whose true bounds leave 0000-01-01..9999-12-31 are compared after clipping to that range; "
                       "Previous() is judged only where the previous period is representable"]
    return vlib.finish(run, flagged, rule_text=
        "one TLC state per calendar year (thorough: all 10000 years = all 3652425 dates; quick: boundary years plus a "
        "seed-rotated 1-in-40 sample): weekday, ISO week/week-year, quarter, week/month/quarter/year period bounds, "
        "previous periods, report-bucket hashes and all period pattern strings of the year, recorded from klog.Date / "
        "period.* and judged by TLC against KCalendar; bucket classes compared globally over a window of years")
