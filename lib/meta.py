"""Per-property manifest metadata (MANIFEST.json is generated from this by bin/mkmanifest)."""
LEVEL_NOTE = ("Trusted base: TLC 1.8 evaluating the TLA+ modules under /verif/spec (written from Specification.md, "
              "the command help texts and the property statements), the Go driver kdrive that only records what the "
              "real code did (built from /repo's working tree with -tags verif), Python plumbing. Verdicts are about "
              "the enumerated / observed cases only.")

META = {
 "C16": {
  "text": "TLC enumerates the property's literal domains from the specification KValues/KCalendar (model checking the spec's own "
          "round-trip laws on every value) and every enumerated literal is replayed into the real value types; every observation "
          "is judged by TLC against the specification (event-wise trace validation). Exhaustive over the stated finite domains in "
          "the thorough tier; the quick tier covers all time/duration strings and a seed-rotated sample of rows and years.",
  "design_ref": "DESIGN.md 6 C16",
  "technique": "TLA+ spec (KValues, KCalendar) + TLC enumeration replayed into klog value types + TLC trace validation of every observation",
 },
}
