"""Per-property manifest metadata (MANIFEST.json is generated from this by bin/mkmanifest)."""
LEVEL_NOTE = ("Trusted base: TLC 1.8 evaluating the TLA+ modules under /verif/spec (written from Specification.md, "
              "the command help texts and the property statements), the Go driver kdrive that only records what the "
              "real code did (built from /repo's working tree with -tags verif), Python plumbing. Verdicts are about "
              "the enumerated / observed cases only. Parameters of the environment that no result may depend on (process "
              "time zone, number of CPUs, whether the text arrives as a file, on standard input or through a bookmark) "
              "rotate over the cases and are part of every replay file.")

META = {
 "C16": {
  "text": "TLC enumerates the property's literal domains from the specification KValues/KCalendar (model checking the spec's own "
          "round-trip laws on every value) and every enumerated literal is replayed into the real value types; every observation "
          "is judged by TLC against the specification (event-wise trace validation). Exhaustive over the stated finite domains in "
          "the thorough tier; the quick tier covers all time/duration strings and a seed-rotated sample of rows and years.",
  "design_ref": "DESIGN.md 6 C16",
  "technique": "TLA+ spec (KValues, KCalendar) + TLC enumeration replayed into klog value types + TLC trace validation of every observation",
 },
 "C15": {
  "text": "One TLC state per calendar year: TLC checks the calendar laws of KCalendar (civil/ordinal bijection, weekday cycle, "
          "period containment/shape/tiling, Thursday rule = January-4th rule) on every date of the year and emits the year as a replay "
          "case; klog.Date and period.* are evaluated on every date and every period pattern of the year and TLC judges the recorded "
          "tables against KCalendar; report-bucket hashes are compared globally over a window of years. Exhaustive over all 3652425 "
          "dates and all pattern strings in the thorough tier.",
  "design_ref": "DESIGN.md 6 C15",
  "technique": "TLA+ calendar spec (KCalendar) model-checked per year with TLC + replay into klog.Date/period.* + TLC trace validation of the recorded tables",
 },
 "C01": {
  "text": "TLC enumerates documents from the generator KGrammar (abstract records x layouts, plus every rule-violating mutant of base "
          "documents) and checks generator against the independent recogniser KParse on each (accept + denoted data, or reject + first "
          "bad line); every document is replayed into the real parser and TLC judges acceptance, rejection and the exact data of each "
          "observation. Bounded by the value/summary/layout pools (quick ~17k documents).",
  "design_ref": "DESIGN.md 6 C01",
  "technique": "TLA+ grammar + recogniser (KGrammar, KParse) cross-checked by TLC; generated documents replayed into parser.Parse; TLC trace validation",
 },
 "C06": {
  "text": "TLC enumerates the token language (all sequences up to the tier's length over 24 klog fragments incl. invalid-UTF-8 symbols, "
          "NUL, lone CR, huge numbers) and evaluates the total recogniser on each; every text is replayed into serial and parallel "
          "parser, read-only commands and error renderings; TLC judges return shape and absence of panics. Crashes of the driver are "
          "attributed to the case and confirmed by an isolated re-run.",
  "design_ref": "DESIGN.md 6 C06",
  "technique": "TLC enumeration of a token language from the TLA+ spec, replay into parser + CLI, TLC trace validation of shape/no-panic",
 },
 "C08": {
  "text": "Spec-level: TLC checks on every generated document that lines and blocks of KParse reproduce the text. Binding: the blocks "
          "returned by the real parser are compared by TLC with the specification's segmentation (text, ending, global line index) "
          "and a no-op reconcile must return the identical text.",
  "design_ref": "DESIGN.md 6 C08",
  "technique": "TLA+ block model (KText/KParse) + TLC-generated documents replayed into parser and no-op reconciler + TLC trace validation",
 },
 "C09": {
  "text": "Spec-level: TLC checks that the canonical serialisation KPrint of every generated document parses back to the same data and "
          "is a fixed point. Binding: `klog print --no-style` through the real CLI on every document; TLC judges re-parse equality "
          "(incl. notation), fixed point, canonical layout and equality with KPrint.",
  "design_ref": "DESIGN.md 6 C09",
  "technique": "TLA+ canonical printer (KPrint) + TLC-generated documents replayed through `klog print` twice + TLC trace validation",
 },
 "C10": {
  "text": "TLC generates every single-fault mutant of base documents (each fault kind at each line) with the line at which the text stops "
          "conforming (generator) and cross-checks it with the recogniser; the real parser's errors (line, text, position, length, order, "
          "first line) and their terminal and JSON renderings are judged by TLC for every mutant.",
  "design_ref": "DESIGN.md 6 C10",
  "technique": "TLA+ mutation generator + recogniser first-bad-line oracle, replay into parser / `klog print` / `klog json`, TLC trace validation",
 },
 "C03": {
  "text": "TLC explores the command model MC_Cli (seed files x every mutating command x parameters x clock/config variants; command pairs), "
          "checking the abstract model's invariants; every history is replayed through the real CLI entry point on a real file and "
          "TLC judges every step against the frame predicates of KReconcile (which lines may change, where lines may be added).",
  "design_ref": "DESIGN.md 6 C03",
  "technique": "TLA+ command model (KCli) explored by TLC, histories replayed into klog.Run on real files, TLC trace validation with frame predicates (KReconcile)",
 },
 "C04": {
  "text": "TLC explores histories of the abstract command model KCli (single commands, pairs, triples; the model's invariants and effect "
          "predicate are checked on every transition); each history is replayed through the real CLI, the file written by one command being "
          "the input of the next, and TLC judges for every step that the re-read records are exactly what the model permits (EffectOK) and "
          "that commands the model rejects fail without change.",
  "design_ref": "DESIGN.md 6 C04",
  "technique": "TLA+ abstract command model (KCli.Model/EffectOK) model-checked by TLC; histories replayed into the real CLI incl. `klog pause` via hook H1; TLC trace validation",
 },
 "C05": {
  "text": "Same exploration as C03 with valid and invalid seed files and failing parameters; TLC judges for every step: success implies the "
          "written file is accepted by the real parser and not violating for the recogniser; failure implies byte-identical, untouched file "
          "and non-zero exit status; no panic.",
  "design_ref": "DESIGN.md 6 C05",
  "technique": "TLC-generated command histories replayed into the real CLI; TLC trace validation of atomicity predicates",
 },
 "C11": {
  "text": "Seed files with per-record style combinations (ties, records without style, whitespace-only lines) x mutating commands x "
          "date_format/time_convention settings; every case is executed three times; TLC judges the style of the added lines (indentation, "
          "line ending, date separator, clock convention, dash spacing, placeholder length) against what the file exhibits, and determinism.",
  "design_ref": "DESIGN.md 6 C11",
  "technique": "TLC-generated scenarios replayed into the real CLI (repeated execution); TLC trace validation of style predicates",
 },
 "C02": {
  "text": 'TLC enumerates evaluation files from MC_Eval (every entry kind alone and in pairs, should-totals, duplicate dates, record dates relative to the clock) and checks the algebraic laws of KEval (diff+should=total, records stay separate); every file is evaluated by the real CLI (`total` decimal and h/m, `json`, `print --with-totals`, with/without --now) and TLC judges every recorded value against KEval.',
  "design_ref": "DESIGN.md 6 C02",
  "technique": 'TLA+ evaluation model (KEval) + TLC-generated files replayed into `klog total/json/print`; TLC trace validation of the parsed outputs',
 },
 "C12": {
  "text": 'TLC enumerates files whose dates come from a pool around ISO-week-year/month/quarter/year boundaries and checks at spec level that report buckets partition the records; `klog report` for all five aggregations with --diff and with --fill, `total`, `today` and `print --with-totals` are run through the real CLI and TLC judges every row (bucket label from KCalendar, values, order, empty filled rows, grand total).',
  "design_ref": "DESIGN.md 6 C12",
  "technique": 'TLA+ KEval/KCalendar report model + TLC-generated files replayed into the CLI; TLC trace validation of parsed tables',
 },
 "C13": {
  "text": "TLC generates, for six reference dates, a 14-record tagged file (ascending and reversed) and ~110 queries each (every date clause with boundary dates, period shapes, relative shortcuts, tags with/without values, entry types, combinations, sort) together with their semantic query; spec-level law: combined clauses = intersection. The real CLI's `klog json <flags>` result is judged by TLC against KEval!Filter for every query.",
  "design_ref": "DESIGN.md 6 C13",
  "technique": 'TLA+ filter semantics (KEval.Filter) + TLC-generated queries replayed into `klog json`; TLC trace validation',
 },
 "C14": {
  "text": 'TLC enumerates all short summaries over a 14-character tag alphabet (and redundancy patterns) in record and entry summaries; `klog json` tags arrays and `klog tags --values --count --decimal` are judged by TLC against the character-level tag recogniser KRecord and the tag totals of KEval.',
  "design_ref": "DESIGN.md 6 C14",
  "technique": 'TLA+ tag recogniser (KRecord) + TLC enumeration replayed into `klog json`/`klog tags`; TLC trace validation',
 },
 "C17": {
  "text": 'TLC explores every minute of the day x roundings x date selection x start/stop/switch x layouts of open ranges x kinds of days in the abstract command model (quick: each minute with rotating rounding/layout/day); every transition is replayed through the real CLI with the clock hook and TLC judges the written time, the yesterday fallback, failures for unrepresentable times and absence of panics; `total --now`/`json --now` are judged against KEval!CloseAll.',
  "design_ref": "DESIGN.md 6 C17",
  "technique": 'TLA+ command model (KCli.AutoOff/Model) explored by TLC over all minutes, replayed into the real CLI with a controlled clock (hook H4); TLC trace validation',
 },
 "C18": {
  "text": 'Code to spec: the outputs of nine evaluation commands under six styling configurations (dark, light, basic, no_colour, NO_COLOR, --no-style) are recorded from the real CLI for TLC-generated files; TLC judges that the outputs stripped of SGR sequences are identical, that unstyled outputs contain no escape sequences and that all rows of tabular outputs have the same width. The colour tables are not modelled.',
  "design_ref": "DESIGN.md 6 C18",
  "technique": 'TLC-generated files replayed into the CLI under every colour scheme; TLC trace validation of SGR-stripped equality and row widths',
 },
 "C20": {
  "text": "`klog json` output for every TLC-generated evaluation file and query is decoded by an independent JSON parser (Python) and judged by TLC field by field against the JSON view defined over KParse/KEval/KRecord (dates, summaries, tags, should-total, entry types, notation of start/end, minute values, arithmetic relations); for every generated invalid document the error objects are judged against the parser's errors.",
  "design_ref": "DESIGN.md 6 C20",
  "technique": 'TLA+ JSON view over KParse/KEval + TLC-generated inputs replayed into `klog json`, decoded independently; TLC trace validation',
 },
 "C07": {
  "text": "Two specifications checked by TLC: the PlusCal model KParallel of workers, closer and collector (every interleaving for N=4,5, thorough 6: results stored by index, no send after close, termination; with a bug witness), and KChunks, the split/batch/merge data flow on all short byte strings x all worker counts (merged blocks = serial blocks). Binding: every KChunks text and a share of the generated documents/mutants are parsed by the real parallel parser with many worker counts and compared with the serial parser; every arrival order of the batch results is forced through hook H2; natural schedules are recorded and validated against KParallel's send/receive projection.",
  "design_ref": "DESIGN.md 6 C07",
  "technique": 'PlusCal/TLA+ models (KParallel, KChunks) model-checked by TLC; replay into NewParallelParser with forced arrival orders (hook H2); TLC trace validation',
 },
 "C19": {
  "text": "TLC explores all histories of bookmark operations up to the tier's depth in the map model KBookmarks (normalisation laws, frame laws per operation) and emits each with list/info/resolution observers after every step; histories are replayed through the real CLI entry point with a temporary config folder; the database file after every step is decoded independently and TLC judges status, database content and order, listing, info and `@name`/default resolution of every step against the model.",
  "design_ref": "DESIGN.md 6 C19",
  "technique": 'TLA+ map model (KBookmarks) explored by TLC; histories replayed into `klog bookmarks`/`klog total @name`; TLC trace validation of whole histories',
 },
}
HOOK_COMMITS = ["022feb6", "3577f1d", "054219c"]
