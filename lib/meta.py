"""Per-property manifest metadata (MANIFEST.json is generated from this by bin/mkmanifest)."""
LEVEL_NOTE = ("Trusted base: TLC 1.8 evaluating the TLA+ modules under /verif/spec (written from Specification.md, "
              "the command help texts and the property statements), the Go driver kdrive that only records what the "
              "real code did (built from /repo's working tree with -tags verif), Python plumbing. Verdicts are about "
              "the enumerated / observed cases only.")

META = {
 "C16": {
  "text": "TLC enumerates the property's literal domains from the specification KValues/KCalendar (model checking the spec's own "
          "round-trip laws on every value) and every enumerated literal is replayed into the real value types; every observation "
          "is judged by TLC against the specification (event-wise trace validation). Exhaustive over the stated finite domains in "
          "the thorough tier; the quick tier covers all time/duration strings and a seed-rotated sample of rows and years.",
  "design_ref": "DESIGN.md 6 C16",
  "technique": "TLA+ spec (KValues, KCalendar) + TLC enumeration replayed into klog value types + TLC trace validation of every observation",
 },
 "C15": {
  "text": "One TLC state per calendar year: TLC checks the calendar laws of KCalendar (civil/ordinal bijection, weekday cycle, "
          "period containment/shape/tiling, Thursday rule = January-4th rule) on every date of the year and emits the year as a replay "
          "case; klog.Date and period.* are evaluated on every date and every period pattern of the year and TLC judges the recorded "
          "tables against KCalendar; report-bucket hashes are compared globally over a window of years. Exhaustive over all 3652425 "
          "dates and all pattern strings in the thorough tier.",
  "design_ref": "DESIGN.md 6 C15",
  "technique": "TLA+ calendar spec (KCalendar) model-checked per year with TLC + replay into klog.Date/period.* + TLC trace validation of the recorded tables",
 },
}
HOOK_COMMITS = []
