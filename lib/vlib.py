"""Supervisor library for the klog verification framework (see DESIGN.md).

Pipeline of every check:   TLC (MC_*: model checking + case generation)
                        -> kdrive (real code, built from $VERIF_REPO with -tags verif)
                        -> TLC (Trace_*: every observation judged against the spec)
Exit codes: 0 held, 1 violation (confirmed by isolated re-run), 2 infrastructure.
"""
import json, os, re, shutil, subprocess, sys, time, hashlib, concurrent.futures as cf

VERIF = os.path.dirname(os.path.dirname(os.path.abspath(__file__)))
SPEC = os.path.join(VERIF, "spec")
HARNESS = os.path.join(VERIF, "harness")
SCRATCH_ROOT = os.environ.get("VERIF_SCRATCH", "/root/scratch")
NCPU = os.cpu_count() or 4


class Infra(Exception):
    """infrastructure problem: exit 2, never a verdict"""


def log(*a):
    print("[check]", *a, file=sys.stderr, flush=True)


class Run:
    def __init__(self, prop, tier, seed, repo):
        self.prop, self.tier, self.seed, self.repo = prop, tier, seed, repo
        self.t0 = time.time()
        self.dir = os.path.join(SCRATCH_ROOT, "run-%s-%d" % (prop, os.getpid()))
        shutil.rmtree(self.dir, ignore_errors=True)
        os.makedirs(self.dir)
        self.specdir = os.path.join(self.dir, "spec")
        shutil.copytree(SPEC, self.specdir)
        self.kdrive = None
        self.nmeta = 0
        # evidence accumulators
        self.states = 0
        self.transitions = 0
        self.events = 0
        self.cases = 0
        self.samples = []
        self.mc_runs = []
        self.extra = {}
        self.violations = []      # confirmed, unknown
        self.known_hits = []
        self.assumptions = []
        self.exhaustive = False

    def path(self, name):
        return os.path.join(self.dir, name)

    def cleanup(self):
        if os.environ.get("VERIF_KEEP"):
            log("keeping", self.dir)
            return
        shutil.rmtree(self.dir, ignore_errors=True)

    # ------------------------------------------------------------------ Go
    def build(self):
        h = self.path("harness")
        shutil.copytree(HARNESS, h)
        with open(os.path.join(h, "go.mod"), "w") as f:
            f.write("module kdrive\n\ngo 1.24\n\nrequire github.com/jotaen/klog v0.0.0\n\n"
                    "replace github.com/jotaen/klog => %s\n" % self.repo)
        shutil.copy(os.path.join(self.repo, "go.sum"), os.path.join(h, "go.sum"))
        env = dict(os.environ, GOFLAGS="-mod=mod", GOPROXY="off")
        env.pop("GOTOOLCHAIN", None)
        env.pop("GOSUMDB", None)
        out = self.path("kdrive")
        p = subprocess.run(["go", "build", "-tags", "verif", "-o", out, "."], cwd=h, env=env,
                           capture_output=True, text=True, timeout=900)
        if p.returncode != 0:
            raise Infra("go build failed:\n" + p.stdout + p.stderr)
        self.kdrive = out
        # the real binary, for process-level checks
        return out

    def build_klog(self):
        env = dict(os.environ, GOFLAGS="-mod=mod", GOPROXY="off")
        env.pop("GOTOOLCHAIN", None)
        env.pop("GOSUMDB", None)
        out = self.path("klog-bin")
        p = subprocess.run(["go", "build", "-tags", "verif", "-o", out, "."], cwd=self.repo, env=env,
                           capture_output=True, text=True, timeout=900)
        if p.returncode != 0:
            raise Infra("go build of klog failed:\n" + p.stdout + p.stderr)
        return out

    # ----------------------------------------------------------------- TLC
    def tlc(self, module, cfg=None, env=None, workers=None, timeout=1800, simulate=None, extra=None,
            heap_gb=None):
        if self.tier == "thorough":
            timeout = max(timeout, 5400)
        self.nmeta += 1
        meta = self.path("meta%d" % self.nmeta)
        cfg = cfg or module
        e = dict(os.environ)
        e.update({k: str(v) for k, v in (env or {}).items()})
        heap = heap_gb or 8
        e["JAVA_TOOL_OPTIONS"] = "-Dfile.encoding=UTF-8 -Xss512m"
        # -Xss must be on the command line: the launcher sizes the main thread (which computes the initial
        # states) before JAVA_TOOL_OPTIONS is read
        cmd = ["timeout", str(timeout), "java", "-Xss512m", "-Xmx%dg" % heap, "-XX:+UseParallelGC",
               "-cp", "/opt/veriftools/tla/tla2tools.jar:/opt/veriftools/tla/CommunityModules-deps.jar",
               "tlc2.TLC"]
        cmd += ["-metadir", meta, "-workers", str(workers or NCPU), "-config", cfg + ".cfg", "-continue",
                "-noGenerateSpecTE"]
        if simulate:
            cmd += ["-simulate", simulate]
        cmd += (extra or [])
        cmd += [module + ".tla"]
        t = time.time()
        p = subprocess.run(cmd, cwd=self.specdir, env=e, capture_output=True, text=True)
        out = p.stdout + p.stderr
        res = parse_tlc(out)
        res["wall_s"] = round(time.time() - t, 1)
        res["rc"] = p.returncode
        res["module"] = module
        shutil.rmtree(meta, ignore_errors=True)
        if p.returncode == 124:
            raise Infra("TLC timed out on %s after %ss" % (module, timeout))
        if res["fatal"]:
            raise Infra("TLC error in %s:\n%s" % (module, "\n".join(res["fatal"][:30]) + "\n---\n" + out[-3000:]))
        if not res["finished"] and not simulate:
            raise Infra("TLC did not finish %s (rc=%s):\n%s" % (module, p.returncode, out[-3000:]))
        return res

    def mc(self, module, env, out_name="cases.ndjson", **kw):
        """model-check a MC_* module; it emits cases to out_name"""
        out = self.path(out_name)
        if os.path.exists(out):
            os.remove(out)
        env = dict(env)
        env.setdefault("KV_OUT", out)
        env.setdefault("KV_TIER", self.tier)
        env.setdefault("KV_SEED", self.seed)
        r = self.tlc(module, env=env, **kw)
        if r["violations"] or r["inv_violated"]:
            raise Infra("spec-level invariant violated in %s (a bug in the specification, not a verdict about klog): %s %s"
                        % (module, r["inv_violated"], r["violations"][:3]))
        self.states += r["distinct"]
        self.transitions += r["generated"]
        self.mc_runs.append({"module": module, "states_generated": r["generated"], "distinct_states": r["distinct"],
                             "wall_s": r["wall_s"]})
        n = count_lines(out) if os.path.exists(out) else 0
        log("MC %s: %d generated / %d distinct states, %d cases, %.1fs" % (module, r["generated"], r["distinct"], n, r["wall_s"]))
        return out, r

    # -------------------------------------------------------------- driver
    def drive(self, cases, obs_name="obs.ndjson", nproc=None, case_timeout=120, env=None):
        """run the real code on every case; returns the path of the observation file (same order)"""
        lines = [l for l in open(cases, encoding="utf-8").read().split("\n") if l.strip()]
        # the process time zone is a parameter of the environment: cases that do not fix it themselves get one of
        # the zones below in rotation (zones without daylight saving time, so every wall-clock reading exists);
        # it travels with the case, so a replay runs in the same zone
        for i, l in enumerate(lines):
            if '"tz"' not in l or '"tz": ""' in l or '"tz":""' in l:
                c = json.loads(l)
                if not c.get("tz"):
                    c["tz"] = ZONES[(i + self.seed) % len(ZONES)]
                    lines[i] = json.dumps(c, ensure_ascii=False)
        n = len(lines)
        self.cases += n
        nproc = max(1, min(nproc or NCPU, (n + 3) // 4))
        shards = [lines[i::nproc] for i in range(nproc)]
        outs = []
        t = time.time()

        def work(i):
            cp = self.path("shard%d.cases" % i)
            op = self.path("shard%d.obs" % i)
            with open(cp, "w", encoding="utf-8") as f:
                f.write("\n".join(shards[i]) + "\n")
            if os.path.exists(op):
                os.remove(op)
            done = 0
            total = len(shards[i])
            guard = 0
            while done < total:
                guard += 1
                if guard > 200 + total // 2:
                    raise Infra("driver keeps crashing (%d restarts)" % guard)
                e2 = dict(os.environ, **(env or {}))
                e2["KDRIVE_CASE_TIMEOUT"] = str(case_timeout)
                p = subprocess.run([self.kdrive, "-in", cp, "-out", op, "-from", str(done)],
                                   env=e2, capture_output=True, text=True, stdin=subprocess.DEVNULL)
                rc, err = p.returncode, p.stderr
                hung = rc == 4
                got = count_lines(op) if os.path.exists(op) else 0
                if rc == 0 and got == total:
                    done = got
                    break
                if rc == 3:
                    raise Infra("kdrive infrastructure error: " + err[-2000:])
                if got >= total:
                    raise Infra("kdrive exited %s after all cases: %s" % (rc, err[-2000:]))
                # the case at index `got` killed (or hung) the process: attribute and continue
                culprit = json.loads(shards[i][got])
                status = "hang" if hung else "crash"
                confirmed = self.confirm_crash(shards[i][got], case_timeout)
                if not confirmed:
                    # the case runs fine alone: an overloaded machine (watchdog) or a transient failure - run the
                    # rest of the shard again from this case, a few times at most
                    transient = getattr(self, "_transient", {})
                    transient[i] = transient.get(i, 0) + 1
                    self._transient = transient
                    if transient[i] <= 3:
                        log("drive: shard %d: %s at case %d does not reproduce alone; continuing from it (attempt %d)" % (i, status, got, transient[i]))
                        done = got
                        continue
                    raise Infra("driver died (%s, rc=%s) on a case that does not reproduce alone:\n%s\n%s"
                                % (status, rc, shards[i][got][:500], err[-1500:]))
                rec = {"case": culprit, "panic": "%s: %s" % (status, crash_message(confirmed)),
                       "site": crash_site(confirmed), "obs": {}}
                with open(op, "a", encoding="utf-8") as f:
                    f.write(json.dumps(rec, ensure_ascii=False) + "\n")
                done = got + 1
            return op

        with cf.ThreadPoolExecutor(max_workers=nproc) as ex:
            outs = list(ex.map(work, range(nproc)))
        # re-interleave to the original order
        per = [[l for l in open(o, encoding="utf-8").read().split("\n") if l.strip()] for o in outs]
        obs = self.path(obs_name)
        with open(obs, "w", encoding="utf-8") as f:
            for j in range(n):
                f.write(per[j % nproc][j // nproc] + "\n")
        log("drive: %d cases in %.1fs (%d processes)" % (n, time.time() - t, nproc))
        return obs

    def confirm_crash(self, case_line, case_timeout):
        """re-run one case alone; returns stderr text if it crashes/hangs again, else None"""
        import uuid
        u = uuid.uuid4().hex
        cp = self.path("one-%s.cases" % u)
        op = self.path("one-%s.obs" % u)
        with open(cp, "w", encoding="utf-8") as f:
            f.write(case_line + "\n")
        if os.path.exists(op):
            os.remove(op)
        p = subprocess.run([self.kdrive, "-in", cp, "-out", op], capture_output=True, text=True, stdin=subprocess.DEVNULL,
                           env=dict(os.environ, KDRIVE_CASE_TIMEOUT=str(case_timeout)))
        if p.returncode == 4:
            return "hang: no result within %ss" % case_timeout
        if p.returncode != 0 and p.returncode != 3:
            return p.stderr or ("exit %d" % p.returncode)
        return None

    def run_one(self, case):
        """execute a single case, return the observation record"""
        cp = self.path("one.cases")
        op = self.path("one.obs")
        line = json.dumps(case, ensure_ascii=False)
        with open(cp, "w", encoding="utf-8") as f:
            f.write(line + "\n")
        if os.path.exists(op):
            os.remove(op)
        p = subprocess.run([self.kdrive, "-in", cp, "-out", op], capture_output=True, text=True, stdin=subprocess.DEVNULL)
        if p.returncode == 4:
            return {"case": case, "panic": "hang: no result", "site": "", "obs": {}}
        if p.returncode == 3:
            raise Infra("kdrive: " + p.stderr[-1000:])
        if p.returncode != 0:
            return {"case": case, "panic": "crash: " + crash_message(p.stderr), "site": crash_site(p.stderr), "obs": {}}
        return json.loads(open(op, encoding="utf-8").read().strip().split("\n")[0])

    def postprocess(self, obs, fn):
        """rewrite every observation with fn(record) (used to decode JSON output with an independent parser)"""
        tmp = obs + ".pp"
        with open(obs, encoding="utf-8") as f, open(tmp, "w", encoding="utf-8") as g:
            for l in f:
                if l.strip():
                    g.write(json.dumps(fn(json.loads(l)), ensure_ascii=False) + "\n")
        os.replace(tmp, obs)
        return obs

    # --------------------------------------------------------------- judge
    def judge(self, module, obs, chunk=40000, env=None, timeout=1800):
        """every observation is judged by TLC; returns [(event, rules)]"""
        lines = [l for l in open(obs, encoding="utf-8").read().split("\n") if l.strip()]
        n = len(lines)
        self.events += n
        if n == 0:
            return []
        if not self.samples:
            for k in sorted({0, n // 3, (2 * n) // 3, n - 1}):
                self.samples.append(truncate(json.loads(lines[k])))
        chunks = [lines[i:i + chunk] for i in range(0, n, chunk)]
        par = min(len(chunks), 4)
        workers = max(2, NCPU // par)
        t = time.time()

        def work(ci):
            cp = self.path("judge-%s-%d.ndjson" % (module, ci))
            with open(cp, "w", encoding="utf-8") as f:
                f.write("\n".join(chunks[ci]) + "\n")
            e = dict(env or {})
            e["KV_TRACE"] = cp
            e.setdefault("KV_TIER", self.tier)
            r = self.tlc(module, env=e, workers=workers, timeout=timeout)
            expect = len(chunks[ci])
            # every event must have been visited: distinct states = 1 + shards + events
            if r["distinct"] < expect:
                raise Infra("trace validation of %s visited %d states for %d events" % (module, r["distinct"], expect))
            found = []
            for (l, rules) in r["viol_prints"]:
                found.append((json.loads(chunks[ci][l - 1]), rules))
            if r["inv_violated"] and not r["viol_prints"]:
                raise Infra("TLC reported an invariant violation without a VIOL record in " + module)
            os.remove(cp)
            return found

        res = []
        with cf.ThreadPoolExecutor(max_workers=par) as ex:
            for f in ex.map(work, range(len(chunks))):
                res.extend(f)
        log("judge %s: %d events, %d flagged, %.1fs" % (module, n, len(res), time.time() - t))
        return res


NULL = "<null>"


def denull(v):
    """TLC's JSON reader has no null: use a sentinel"""
    if v is None:
        return NULL
    if isinstance(v, dict):
        return {k: denull(x) for k, x in v.items()}
    if isinstance(v, list):
        return [denull(x) for x in v]
    if isinstance(v, float):
        return int(v) if v == int(v) else str(v)
    return v


ZONES = ["UTC", "Pacific/Kiritimati", "Pacific/Pago_Pago", "Asia/Kolkata", "UTC", "Asia/Kathmandu"]


def decode_json_fields(ev):
    """well-formedness of `klog json` output is decided here, by Python's json module; TLC cannot read null,
    so the two top-level arrays get explicit null flags and any other null becomes a sentinel string"""
    o = ev.get("obs", {})
    for raw, dst in (("json_raw", "json"), ("json_pretty_raw", "json_pretty"), ("json_multi_raw", "json_multi"),
                     ("stdin_json_raw", "json_stdin")):
        if raw in o:
            try:
                v = json.loads(o[raw])
                ok = isinstance(v, dict) and set(v.keys()) == {"records", "errors"}
            except Exception:
                v, ok = None, False
            if ok:
                o[dst + "_records_null"] = v["records"] is None
                o[dst + "_errors_null"] = v["errors"] is None
                o[dst] = denull({"records": v["records"] or [], "errors": v["errors"] or []})
            else:
                o[dst + "_records_null"] = True
                o[dst + "_errors_null"] = True
                o[dst] = {"records": [], "errors": []}
            o[dst + "_wellformed"] = ok
            del o[raw]
    return ev


def truncate(o, lim=600):
    s = json.dumps(o, ensure_ascii=False)
    if len(s) <= lim:
        return o
    return {"truncated": s[:lim] + "..."}


def count_lines(p):
    n = 0
    with open(p, "rb") as f:
        for _ in f:
            n += 1
    return n


def crash_message(stderr):
    for l in (stderr or "").split("\n"):
        if l.startswith("panic:") or l.startswith("fatal error:") or l.startswith("hang:"):
            return l.strip()[:300]
    return (stderr or "").strip().split("\n")[0][:300]


def crash_site(stderr):
    seen = False
    for l in (stderr or "").split("\n"):
        if l.startswith("panic(") or l.startswith("goroutine "):
            seen = True
            continue
        if seen and l.startswith("github.com/jotaen/klog"):
            l = l.rsplit("(", 1)[0]
            return l.replace("github.com/jotaen/klog/", "")
    return ""


STATES_RE = re.compile(r"^(\d+) states generated, (\d+) distinct states found, (\d+) states left on queue", re.M)
VIOL_RE = re.compile(r'<<"VIOL", (\d+), \{([^}]*)\}>>')


def parse_tlc(out):
    res = {"generated": 0, "distinct": 0, "finished": False, "fatal": [], "violations": [], "inv_violated": [],
           "viol_prints": [], "prints": []}
    for m in STATES_RE.finditer(out):
        res["generated"], res["distinct"] = int(m.group(1)), int(m.group(2))
    if "Model checking completed" in out or "Finished in" in out:
        res["finished"] = True
    for m in re.finditer(r"Error: Invariant (\S+) is violated", out):
        res["inv_violated"].append(m.group(1))
    seen = set()
    for m in VIOL_RE.finditer(out):
        l = int(m.group(1))
        rules = [x.strip().strip('"') for x in m.group(2).split(",") if x.strip()]
        if l not in seen:
            seen.add(l)
            res["viol_prints"].append((l, rules))
    fatal_markers = ["Error: TLC threw an unexpected exception", "Error: Evaluating", "Error: The following behavior",
                     "java.lang.", "Error: Parsing or semantic analysis failed", "*** Errors:", "Error: TLC was unable",
                     "Error: In evaluation", "Error: Attempted to", "Error: The first argument", "Error: The second argument",
                     "was not in the domain", "Error: There was a conflict", "Error: Deadlock", "Fatal error",
                     "Error: Action property", "Error: Temporal properties", "Error: Cannot find", "Error: An exception",
                     "Error: The exception", "Error: Unknown", "Could not", "StackOverflowError", "Error: Assumption"]
    for l in out.split("\n"):
        if any(k in l for k in fatal_markers):
            res["fatal"].append(l)
    if res["fatal"]:
        # keep context
        idx = out.find(res["fatal"][0])
        res["fatal"].append(out[idx:idx + 1500])
    return res


# ------------------------------------------------------------------ findings
def load_known():
    p = os.path.join(VERIF, "known_findings.json")
    if not os.path.exists(p):
        return []
    return json.load(open(p, encoding="utf-8"))["findings"]


def flat(o, prefix=""):
    """flatten a json value to {path: string}"""
    r = {}
    if isinstance(o, dict):
        for k, v in o.items():
            r.update(flat(v, prefix + k + "."))
    elif isinstance(o, list):
        r[prefix.rstrip(".")] = json.dumps(o, ensure_ascii=False)
    else:
        r[prefix.rstrip(".")] = o if isinstance(o, str) else json.dumps(o, ensure_ascii=False)
    return r


def match_known(prop, ev, rules, known):
    f = flat(ev)
    for k in known:
        if k.get("status") != "known" or k.get("property") != prop:
            continue
        m = k.get("match", {})
        ok = True
        if "rules" in m and not (set(rules) <= set(m["rules"])):
            ok = False
        for path, rx in m.get("fields", {}).items():
            if path not in f or re.search(rx, f[path], re.S) is None:
                ok = False
        if ok:
            return k
    return None


def finish(run, flagged, level="model_checking", rule_text="", technique_note=""):
    """confirm flagged events by isolated re-execution, match known findings, write evidence, exit"""
    known = load_known()
    prop = run.prop
    confirmed = []
    seen_sig = set()
    for (ev, rules) in flagged:
        cc = ev.get("case") or {}
        if "orig" in cc:
            cc = {k: v for k, v in cc.items() if k not in ("orig", "step", "hist")}
        sig = (tuple(sorted(rules)), json.dumps(cc, sort_keys=True, ensure_ascii=False))
        if sig in seen_sig:
            continue
        seen_sig.add(sig)
        confirmed.append((ev, rules))
    out_viol = 0
    if os.environ.get("VERIF_DEBUG"):
        import collections
        with open(os.path.join(SCRATCH_ROOT, "flagged-%s.ndjson" % prop), "w", encoding="utf-8") as dbg:
            for ev, r in confirmed:
                dbg.write(json.dumps({"rules": r, "ev": ev}, ensure_ascii=False) + "\n")
        cnt = collections.Counter((tuple(r), ev.get("site", ""), str(ev.get("panic", ""))[:80],
                                   " ".join((ev.get("case") or {}).get("args", [])[:1])) for ev, r in confirmed)
        for k, v in cnt.most_common(40):
            log("  summary", v, k)
    os.makedirs(os.path.join(VERIF, "replays"), exist_ok=True)
    printed_known = set()
    for (ev, rules) in confirmed:
        k = match_known(prop, ev, rules, known)
        if k is not None:
            if k["id"] not in printed_known:
                printed_known.add(k["id"])
                print("KNOWN-FINDING: property=%s %s" % (prop, k["what"]), flush=True)
            run.known_hits.append(k["id"])
            continue
        out_viol += 1
        if out_viol <= 20:
            h = hashlib.sha1(json.dumps(ev.get("case"), sort_keys=True).encode()).hexdigest()[:12]
            rp = os.path.join(VERIF, "replays", "%s-%s.json" % (prop, h))
            with open(rp, "w", encoding="utf-8") as f:
                json.dump({"property": prop, "rules": rules, "case": ev.get("case"), "observed": ev.get("obs"),
                           "panic": ev.get("panic", ""), "site": ev.get("site", "")}, f, ensure_ascii=False, indent=1)
            print("VIOLATION property=%s replay=%s" % (prop, rp), flush=True)
            log("  rules=%s case=%s" % (rules, json.dumps(ev.get("case"), ensure_ascii=False)[:400]))
            log("  observed=%s panic=%s" % (json.dumps(ev.get("obs"), ensure_ascii=False)[:400], ev.get("panic", "")))
    write_evidence(run, level, out_viol, rule_text)
    return 1 if out_viol else 0


def write_evidence(run, level, nviol, rule_text):
    os.makedirs(os.path.join(VERIF, "evidence"), exist_ok=True)
    cov = {
        "states": max(1, run.states),
        "transitions": max(1, run.transitions),
        "traces_validated_against_impl": run.events,
        "samples": run.samples[:6] or [{"note": "no sample"}],
        "cases_replayed_into_impl": run.cases,
        "evaluations": run.events,
        "rule": rule_text,
        "mc_runs": run.mc_runs,
        "known_findings_hit": sorted(set(run.known_hits)),
        "exhaustive": bool(run.exhaustive),
    }
    cov.update(run.extra)
    ev = {
        "property_id": run.prop,
        "tier": run.tier,
        "seed": int(run.seed),
        "level": level,
        "coverage": cov,
        "assumptions": run.assumptions,
        "wall_s": round(time.time() - run.t0, 1),
        "violations": nviol,
    }
    with open(os.path.join(VERIF, "evidence", "%s.json" % run.prop), "w", encoding="utf-8") as f:
        json.dump(ev, f, ensure_ascii=False, indent=1)
