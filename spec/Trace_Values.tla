---------------------------- MODULE Trace_Values ----------------------------
(***************************************************************************)
(* C16, code -> spec: every observation the driver recorded from the real   *)
(* value types is judged against KValues/KCalendar.  Event-wise validation: *)
(* one TLC state per event, the rules are evaluated as an invariant.        *)
(***************************************************************************)
EXTENDS KValues, Json, IOUtils

VARIABLES l, sh
Trace == ndJsonDeserialize(IOEnv.KV_TRACE)
N     == Len(Trace)
NSh   == 64

Init == l = 0 /\ sh = 0
Next == \/ /\ l = 0 /\ sh = 0
           /\ sh' \in 1..NSh /\ l' = 0
        \/ /\ l = 0 /\ sh > 0 /\ sh <= N
           /\ l' \in {sh + NSh * k : k \in 0..((N - sh) \div NSh)}
           /\ sh' = sh

RuleNames == {"NoPanic", "TimeAccept", "TimeValue", "TimePrint", "TimeFmt", "RangeRow", "PlusRow",
              "DateAccept", "DateValue", "DateYear", "DurAccept", "DurValue", "DurPrint", "Pure"}

SepOK(sep) == sep \in {"--", "//"}

Holds(r, ev) ==
    LET c == ev.case  o == ev.obs  k == ev.case.kind  live == ev.panic = "" IN
    CASE r = "NoPanic" -> ev.panic = ""
      [] r = "TimeAccept" -> k = "time" /\ live => o.ok = ParseTime(c.s).ok
      [] r = "TimeValue" -> k = "time" /\ live /\ o.ok /\ ParseTime(c.s).ok =>
                LET e == ParseTime(c.s) IN o.off = e.off /\ o.h12 = e.h12
      [] r = "TimePrint" -> k = "time" /\ live /\ o.ok /\ ParseTime(c.s).ok =>
                LET e == ParseTime(c.s) IN o.str = FormatTime(e.off, e.h12)
      (* observing a value (writing it in the other notation, adding to it, comparing it) does not change it *)
      [] r = "Pure" -> /\ k = "time" /\ live /\ o.ok /\ ParseTime(c.s).ok =>
                            LET e == ParseTime(c.s) IN
                            o.alt = FormatTime(e.off, ~e.h12) /\ o.str2 = o.str /\ o.h12_2 = o.h12 /\ o.off2 = o.off
                       /\ k = "date" /\ live /\ o.ok /\ ParseDate(c.s).ok =>
                            LET e == ParseDate(c.s) IN o.alt = FormatDate(e.ord, ~e.dashes) /\ o.str2 = o.str
      [] r = "TimeFmt" -> k = "timefmt" /\ live =>
                /\ o.ok /\ o.off = c.off /\ o.h12 = c.h12 /\ o.str = c.s
                /\ o.api_ok /\ o.api_off = c.off /\ o.api_str = FormatTime(c.off, FALSE)
                (* two times are equal exactly when they denote the same instant; order follows the instant *)
                /\ o.eq_runs = << <<c.off, c.off>> >>
                /\ o.ge_runs = << <<MinOff, c.off>> >>
      [] r = "RangeRow" -> k = "range_row" /\ live =>
                /\ o.tested = 4320
                /\ o.ok_runs = << <<c.off, MaxOff>> >>
                /\ o.dur_minus_end = << 0 - c.off >>
      [] r = "PlusRow" -> k = "plus_row" /\ live =>
                /\ o.tested = 5761
                /\ o.ok_runs = << <<Max(-2880, MinOff - c.off), Min(2880, MaxOff - c.off)>> >>
                /\ o.res_minus_d = << c.off >>
                /\ o.res_h12 = << c.h12 >>
                /\ o.bad_str = 0
      [] r = "DateAccept" -> k = "date" /\ live => o.ok = ParseDate(c.s).ok
      [] r = "DateValue" -> k = "date" /\ live /\ o.ok /\ ParseDate(c.s).ok =>
                LET e == ParseDate(c.s)  cv == Civil(e.ord) IN
                /\ o.y = cv.y /\ o.m = cv.m /\ o.d = cv.d
                /\ o.str = FormatDate(e.ord, e.dashes)
                /\ o.wd = Weekday(e.ord)
                (* adding days: the date that many days away, or no date outside years 0000..9999 *)
                /\ \A i \in 1..Len(o.plus) :
                      LET n == o.plus[i][1]  t == e.ord + n IN
                      o.plus[i][2] = IF t < 0 \/ t > MaxOrd THEN -1
                                     ELSE LET q == Civil(t) IN q.y * 10000 + q.m * 100 + q.d
      [] r = "DateYear" -> k = "date_year" /\ live =>
                /\ o.tested = 4 * 14 * 33
                /\ o.mismatch = <<>>
                /\ \A i \in 1..Len(o.rows) :
                      LET row == o.rows[i] IN
                      row.days = IF SepOK(row.sep) /\ row.m \in 1..12
                                 THEN [d \in 1..DaysInMonth(c.year, row.m) |-> d]
                                 ELSE <<>>
                /\ Len(o.rows) = 4 * 14
      [] r = "DurAccept" -> k = "dur" /\ live /\ ~ParseDuration(c.s).big => o.ok = ParseDuration(c.s).ok
      [] r = "DurValue" -> k = "dur" /\ live /\ o.ok /\ ParseDuration(c.s).ok => o.mins = ParseDuration(c.s).mins
      [] r = "DurPrint" -> k = "dur" /\ live /\ o.ok /\ ParseDuration(c.s).ok =>
                o.str = FormatDuration(ParseDuration(c.s))

Failed(ev) == {r \in RuleNames : ~Holds(r, ev)}
Accept == l > 0 => LET v == Failed(Trace[l]) IN v = {} \/ (PrintT(<<"VIOL", l, v>>) /\ FALSE)
=============================================================================
