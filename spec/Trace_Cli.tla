------------------------------ MODULE Trace_Cli ------------------------------
(***************************************************************************)
(* Code -> spec for the mutating commands (C03, C04, C05, C11, C17): every  *)
(* recorded step (file before, command, clock, configuration, file after,   *)
(* exit status) of the real CLI is judged against the abstract command      *)
(* model KCli and the text-level predicates KReconcile.                     *)
(***************************************************************************)
EXTENDS KReconcile, Json, IOUtils

VARIABLES l, sh
Trace == ndJsonDeserialize(IOEnv.KV_TRACE)
N     == Len(Trace)
NSh   == 64

RECURSIVE SplitComma(_)
SplitComma(s) == LET i == FindIn(s, 1, {","}) IN
                 IF i > Len(s) THEN {s} ELSE {Take(s, i - 1)} \cup SplitComma(Drop(s, i))
Prefixes == SplitComma(IOEnv.KV_RULES)

Init == l = 0 /\ sh = 0
Next == \/ /\ l = 0 /\ sh = 0
           /\ sh' \in 1..NSh /\ l' = 0
        \/ /\ l = 0 /\ sh > 0 /\ sh <= N
           /\ l' \in {sh + NSh * k : k \in 0..((N - sh) \div NSh)}
           /\ sh' = sh

AllRules == {"C03.Frame", "C03.NoPanic", "C04.NoPanic", "C11.NoPanic",
             "C04.Accept", "C04.Reject", "C04.Effect", "C04.Ticks", "C03.Ticks",
             "C05.NoPanic", "C05.Atomic", "C05.Valid", "C05.ExitCode",
             "C11.Style", "C11.Deterministic", "C11.Accepted",
             "C17.NoPanic", "C17.Time", "C17.Unrepresentable",
             "X.Predicted"}
RuleNames == {r \in AllRules : \E p \in Prefixes : StartsWith(r, p)}
(* a selection that matches no rule would make the validation vacuous *)
ASSUME RuleNames # {}

FromObsEntry(e) == [kind |-> e.kind, a |-> e.a, b |-> e.b, canon |-> e.canon, summary |-> e.summary]
FromObsRec(r) == LET d == ParseDate(r.date) IN
                 [date |-> [ord |-> d.ord, dashes |-> d.dashes], should |-> r.should, summary |-> r.summary,
                  entries |-> [i \in 1..Len(r.entries) |-> FromObsEntry(r.entries[i])]]
FromObs(rs) == [k \in 1..Len(rs) |-> FromObsRec(rs[k])]

(* pause sessions: the file after `pause` started and after every iteration of its loop.  After the *)
(* k-th clock reading the pause entry is extended by the whole minutes elapsed so far (never reduced), *)
(* only its duration token changes, nothing else in the file does                                     *)
RECURSIVE MaxDiff(_, _)
MaxDiff(ticks, k) == IF k = 0 THEN 0
                     ELSE LET d == IF ticks[k] >= 0 THEN ticks[k] \div 60 ELSE 0 IN Max(d, MaxDiff(ticks, k - 1))
PauseLoc(cmd, M, D1) == IF cmd.extend THEN [t |-> M.t, i |-> M.i]
                        ELSE [t |-> M.t, i |-> Len(D1[M.t].entries)]
(* B[k] is the file the k-th iteration finds: what the previous iteration left plus whatever the    *)
(* environment appended meanwhile (cmd.edits).  The iteration must start from that file (the file is  *)
(* the only state) - the records and lines the environment added survive like all others.            *)
TickDataOK(cmd, M, F, B, k) ==      \* F[1]: after start; F[k + 1]: after the k-th reading
    LET P1 == ParseDoc(F[1])  Pk == ParseDoc(F[k + 1])  Pb == ParseDoc(B[k])
        D1 == DocData(P1)  Dk == DocData(Pk)  Db == DocData(Pb)
        loc == PauseLoc(cmd, M, D1)
        e1 == D1[loc.t].entries[loc.i]
    IN  /\ P1.ok /\ Pk.ok /\ Pb.ok /\ Len(Dk) = Len(Db)
        /\ \A t \in 1..Len(Db) : t # loc.t => Dk[t] = Db[t]
        /\ SameHead(Dk[loc.t], Db[loc.t]) /\ Len(Dk[loc.t].entries) = Len(Db[loc.t].entries)
        /\ \A i \in 1..Len(Db[loc.t].entries) : i # loc.i => Dk[loc.t].entries[i] = Db[loc.t].entries[i]
        /\ LET x == Dk[loc.t].entries[loc.i] IN
           x.kind = "dur" /\ x.summary = e1.summary /\ x.a = e1.a - MaxDiff(cmd.ticks, k)
TickFrameOK(cmd, M, F, B, k) ==
    LET Pb == ParseDoc(B[k])
        loc == PauseLoc(cmd, M, DocData(ParseDoc(F[1])))
        lc == Loc(Pb, loc.t, loc.i)
        P == Pb.lines  Q == SplitLines(F[k + 1])
    IN  F[k + 1] = B[k] \/ (Len(Q) = Len(P) /\ FrameReplace(P, Q, lc.f, lc.f, lc.e.valFrom, lc.e.valTo, FALSE, Len(P), Len(P)))
(* the driver played the environment as the model says *)
EnvOK(cmd, F, B) == Len(B) = Len(cmd.ticks) /\ \A k \in 1..Len(B) : B[k] = ExtAppend(F[k], EditAt(cmd, k))

Holds(r, ev, PP, M) ==
    LET c == ev.case  o == ev.obs  cmd == ev.case.cmd  live == ev.panic = ""
        okPre == JudgedLikeConforming(PP, c.pre)
        P == PP.lines
        Q == SplitLines(o.post)
        judged == live /\ okPre /\ M.st # "unspec" /\ ~c.nofile
        quiet == cmd.edits = <<>>      \* nobody else wrote to the file meanwhile (otherwise the tick rules judge)
    IN
    CASE r = "C03.Frame" -> judged /\ quiet /\ o.code = 0 /\ M.st = "ok" => FrameOK(cmd, M, PP, P, Q)
      [] r = "C04.Accept" -> judged /\ M.st = "ok" => o.code = 0
      [] r = "C04.Reject" -> judged /\ M.st = "fail" => o.code # 0 /\ o.post = c.pre
      [] r = "C04.Effect" -> judged /\ quiet /\ M.st = "ok" /\ o.code = 0 /\ o.parsed_ok =>
            EffectOK(M, DocData(PP), FromObs(o.records))
      [] r = "C04.Ticks" -> judged /\ cmd.op = "pause" /\ M.st = "ok" /\ o.code = 0 =>
            LET F == o.tick_files IN
            /\ Len(F) = Len(cmd.ticks) + 1
            /\ F[Len(F)] = o.post
            /\ EnvOK(cmd, F, o.tick_pre) => \A k \in 1..Len(cmd.ticks) : TickDataOK(cmd, M, F, o.tick_pre, k)
      [] r = "C03.Ticks" -> judged /\ cmd.op = "pause" /\ M.st = "ok" /\ o.code = 0 /\ Len(o.tick_files) = Len(cmd.ticks) + 1
                            /\ EnvOK(cmd, o.tick_files, o.tick_pre) =>
            \A k \in 1..Len(cmd.ticks) : TickFrameOK(cmd, M, o.tick_files, o.tick_pre, k)
      (* drift metric, never a verdict: does the real result equal the prediction of the tight text-level model? *)
      [] r = "X.Predicted" -> live /\ c.pre = c.predpre /\ c.pred.st # "unspec" =>
            IF c.pred.st = "ok" THEN o.code = 0 /\ o.post = c.pred.text ELSE o.code # 0
      [] r \in {"C05.NoPanic", "C03.NoPanic", "C04.NoPanic", "C11.NoPanic"} -> ev.panic = ""
      [] r = "C05.Atomic" -> live /\ o.code # 0 => o.post = c.pre /\ ~o.touched
      [] r = "C05.Valid" -> live /\ o.code = 0 => o.parsed_ok /\ ParseDoc(o.post).status # "Violating"
      [] r = "C05.ExitCode" -> live /\ (PP.status = "Violating" \/ c.nofile) => o.code # 0 /\ o.post = c.pre
      [] r = "C11.Style" -> judged /\ quiet /\ o.code = 0 /\ M.st = "ok" /\ FrameOK(cmd, M, PP, P, Q) => StyleOK(cmd, c.cfg, M, PP, P, Q)
      [] r = "C11.Deterministic" -> live => o.repeat_equal
      [] r = "C11.Accepted" -> judged /\ M.st = "ok" => o.code = 0 /\ o.parsed_ok
      [] r = "C17.NoPanic" -> ev.panic = ""
      [] r = "C17.Time" -> judged /\ M.st = "ok" /\ o.code = 0 /\ o.parsed_ok /\ cmd.op \in {"start", "stop", "switch"} =>
            EffectOK(M, DocData(PP), FromObs(o.records))
      [] r = "C17.Unrepresentable" -> judged /\ cmd.op \in {"start", "stop", "switch"} /\ M.st = "fail" =>
            o.code # 0 /\ o.post = c.pre

Failed(ev) ==
    LET PP == ParseDoc(ev.case.pre)
        M == IF JudgedLikeConforming(PP, ev.case.pre) THEN Model(ev.case.cmd, DocData(PP), ev.case.now, ev.case.cfg) ELSE [st |-> "unspec"]
    IN  {r \in RuleNames : ~Holds(r, ev, PP, M)}
Accept == l > 0 => LET v == Failed(Trace[l]) IN v = {} \/ (PrintT(<<"VIOL", l, v>>) /\ FALSE)
=============================================================================
