------------------------------- MODULE KPrint -------------------------------
(***************************************************************************)
(* Canonical serialisation of records (`klog print` without styling):       *)
(* four-space indentation, LF, one blank line between records, canonical    *)
(* literals with their notation kept.  Written from the help text of        *)
(* `klog print` and the statement of C09.                                   *)
(***************************************************************************)
EXTENDS KValues

RECURSIVE EntryLinesP(_, _)
EntryLinesP(es, i) ==
    IF i > Len(es) THEN <<>>
    ELSE LET e == es[i]
             first == "    " \o e.canon \o (IF e.summary # <<>> /\ e.summary[1] # "" THEN " " \o e.summary[1] ELSE "")
             conts == [m \in 1..(Len(e.summary) - 1) |-> "        " \o e.summary[m + 1]]
         IN  <<first>> \o conts \o EntryLinesP(es, i + 1)

PrintRecordLines(r) ==
    << FormatDate(r.date.ord, r.date.dashes)
       \o (IF r.should # 0 THEN " (" \o FormatMins(r.should) \o "!)" ELSE "") >>
    \o r.summary
    \o EntryLinesP(r.entries, 1)

RECURSIVE PrintLinesFrom(_, _)
PrintLinesFrom(rs, i) ==
    IF i > Len(rs) THEN <<>>
    ELSE PrintRecordLines(rs[i]) \o (IF i < Len(rs) THEN <<"">> ELSE <<>>) \o PrintLinesFrom(rs, i + 1)

RECURSIVE JoinLF(_)
JoinLF(ls) == IF ls = <<>> THEN "" ELSE Head(ls) \o LF \o JoinLF(Tail(ls))

PrintDoc(rs) == JoinLF(PrintLinesFrom(rs, 1))
=============================================================================
