INIT Init
NEXT Next
ACTION_CONSTRAINT Emit
INVARIANTS OneOpenRange RangesOrdered
CHECK_DEADLOCK FALSE
