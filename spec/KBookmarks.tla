----------------------------- MODULE KBookmarks -----------------------------
(***************************************************************************)
(* The bookmark database as a plain map from normalised name to file        *)
(* (`klog bookmarks` help text, statement of C19).  Operations:             *)
(*   [op |-> "set", file, name] [op |-> "setdefault", file]                 *)
(*   [op |-> "unset", name] [op |-> "clear"]                                *)
(* observers: [op |-> "list"], [op |-> "info", name],                       *)
(*   [op |-> "resolve", name] (klog total @name), [op |-> "resolvedefault"] *)
(***************************************************************************)
EXTENDS KText

RECURSIVE StripAt(_)
StripAt(n) == IF n # "" /\ Ch(n, 1) = "@" THEN StripAt(Drop(n, 1)) ELSE n
NormName(n) == IF StripAt(n) = "" THEN "default" ELSE StripAt(n)

(* order of the normalised names used by the bounded instance (code point order) *)
NameOrder == <<"\"q\"", "A", "B", "a", "a@", "b", "default", "x'y", "ä b">>     \* names are case-sensitive
Rank(n) == IF \E i \in 1..Len(NameOrder) : NameOrder[i] = n THEN CHOOSE i \in 1..Len(NameOrder) : NameOrder[i] = n ELSE 0

Files == <<"f1.klg", "f 2.klg", "q\"3.klg", "ü4.klg", "d/f1.klg">>     \* the last one: same file name, other folder
(* each file holds one entry of i hours, so that evaluating it tells which file was read *)
FileMinutes(f) == 60 * (CHOOSE i \in 1..Len(Files) : Files[i] = f)

EmptyDb == [n \in {} |-> ""]
Has(db, n) == n \in DOMAIN db
Put(db, n, f) == [m \in DOMAIN db \cup {n} |-> IF m = n THEN f ELSE db[m]]
Del(db, n) == [m \in DOMAIN db \ {n} |-> db[m]]

(* `bookmarks clear` without --yes asks; the answer is the first line on standard input *)
FirstLine(t) == LET e == FindIn(t, 1, {"\n"})
                    l == Take(t, e - 1)
                IN  IF l # "" /\ Ch(l, Len(l)) = "\r" THEN Take(l, Len(l) - 1) ELSE l
Confirmed(c) == FirstLine(c.answer) \in {"y", "Y"}
IsMutation(c) == c.op \in {"set", "setdefault", "unset", "clear", "clearask"}
(* the model: does the command succeed, and the database after it *)
Succeeds(db, c) == CASE c.op = "unset" -> Has(db, NormName(c.name))
                     [] c.op = "info" -> Has(db, NormName(c.name))
                     [] c.op = "resolve" -> Has(db, NormName(c.name))
                     [] c.op = "resolvedefault" -> Has(db, "default")
                     [] c.op \in {"resolvemix", "resolvemix2", "resolveblank"} -> Has(db, NormName(c.name))
                     [] c.op = "clearask" -> c.answer # ""          \* nothing to read: the command fails
                     [] OTHER -> TRUE
After(db, c) == CASE c.op = "set" -> Put(db, NormName(c.name), c.file)
                  [] c.op = "setdefault" -> Put(db, "default", c.file)
                  [] c.op = "unset" -> IF Has(db, NormName(c.name)) THEN Del(db, NormName(c.name)) ELSE db
                  [] c.op = "clear" -> EmptyDb
                  [] c.op = "clearask" -> IF c.answer # "" /\ Confirmed(c) THEN EmptyDb ELSE db
                  [] OTHER -> db

RECURSIVE SortedNames(_)
SortedNames(S) == IF S = {} THEN <<>>
                  ELSE LET m == CHOOSE x \in S : \A y \in S : Rank(x) <= Rank(y) IN <<m>> \o SortedNames(S \ {m})
(* what `bookmarks list` shows: one line per bookmark, ordered by name; W = directory of the files *)
Listing(db, W) == [i \in 1..Cardinality(DOMAIN db) |->
                     LET n == SortedNames(DOMAIN db)[i] IN "@" \o n \o " -> " \o W \o "/" \o db[n]]

ToArgs(c) ==
    CASE c.op = "set" -> <<"bookmarks", "set", c.file, c.name>>
      [] c.op = "setdefault" -> <<"bookmarks", "set", c.file>>
      [] c.op = "unset" -> <<"bookmarks", "unset", c.name>>
      [] c.op = "clear" -> <<"bookmarks", "clear", "--yes">>
      [] c.op = "list" -> <<"bookmarks", "list">>
      [] c.op = "info" -> <<"bookmarks", "info", c.name>>
      [] c.op = "resolve" -> <<"total", "--decimal", "--no-warn", "--no-style", "@" \o NormName(c.name)>>
      [] c.op = "resolvedefault" -> <<"total", "--decimal", "--no-warn", "--no-style">>
      (* a bookmark next to a plain file, in both orders: the records of both *)
      [] c.op = "resolvemix" -> <<"total", "--decimal", "--no-warn", "--no-style", Files[1], "@" \o NormName(c.name)>>
      [] c.op = "resolvemix2" -> <<"total", "--decimal", "--no-warn", "--no-style", "@" \o NormName(c.name), Files[2]>>
      (* blank arguments are ignored *)
      [] c.op = "resolveblank" -> <<"total", "--decimal", "--no-warn", "--no-style", "", "@" \o NormName(c.name), " ">>
      [] c.op = "clearask" -> <<"bookmarks", "clear">>
=============================================================================
