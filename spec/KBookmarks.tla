----------------------------- MODULE KBookmarks -----------------------------
(***************************************************************************)
(* The bookmark database as a plain map from normalised name to file        *)
(* (`klog bookmarks` help text, statement of C19).  Operations:             *)
(*   [op |-> "set", file, name] [op |-> "setdefault", file]                 *)
(*   [op |-> "unset", name] [op |-> "clear"]                                *)
(* observers: [op |-> "list"], [op |-> "info", name],                       *)
(*   [op |-> "resolve", name] (klog total @name), [op |-> "resolvedefault"] *)
(***************************************************************************)
EXTENDS KText

RECURSIVE StripAt(_)
StripAt(n) == IF n # "" /\ Ch(n, 1) = "@" THEN StripAt(Drop(n, 1)) ELSE n
NormName(n) == IF StripAt(n) = "" THEN "default" ELSE StripAt(n)

(* order of the normalised names used by the bounded instance (code point order) *)
NameOrder == <<"\"q\"", "B", "a", "a@", "b", "default", "x'y", "ä b">>
Rank(n) == CHOOSE i \in 1..Len(NameOrder) : NameOrder[i] = n

Files == <<"f1.klg", "f 2.klg", "q\"3.klg", "ü4.klg">>
(* each file holds one entry of i hours, so that evaluating it tells which file was read *)
FileMinutes(f) == 60 * (CHOOSE i \in 1..Len(Files) : Files[i] = f)

EmptyDb == [n \in {} |-> ""]
Has(db, n) == n \in DOMAIN db
Put(db, n, f) == [m \in DOMAIN db \cup {n} |-> IF m = n THEN f ELSE db[m]]
Del(db, n) == [m \in DOMAIN db \ {n} |-> db[m]]

IsMutation(c) == c.op \in {"set", "setdefault", "unset", "clear"}
(* the model: does the command succeed, and the database after it *)
Succeeds(db, c) == CASE c.op = "unset" -> Has(db, NormName(c.name))
                     [] c.op = "info" -> Has(db, NormName(c.name))
                     [] c.op = "resolve" -> Has(db, NormName(c.name))
                     [] c.op = "resolvedefault" -> Has(db, "default")
                     [] OTHER -> TRUE
After(db, c) == CASE c.op = "set" -> Put(db, NormName(c.name), c.file)
                  [] c.op = "setdefault" -> Put(db, "default", c.file)
                  [] c.op = "unset" -> IF Has(db, NormName(c.name)) THEN Del(db, NormName(c.name)) ELSE db
                  [] c.op = "clear" -> EmptyDb
                  [] OTHER -> db

RECURSIVE SortedNames(_)
SortedNames(S) == IF S = {} THEN <<>>
                  ELSE LET m == CHOOSE x \in S : \A y \in S : Rank(x) <= Rank(y) IN <<m>> \o SortedNames(S \ {m})
(* what `bookmarks list` shows: one line per bookmark, ordered by name; W = directory of the files *)
Listing(db, W) == [i \in 1..Cardinality(DOMAIN db) |->
                     LET n == SortedNames(DOMAIN db)[i] IN "@" \o n \o " -> " \o W \o "/" \o db[n]]

ToArgs(c) ==
    CASE c.op = "set" -> <<"bookmarks", "set", c.file, c.name>>
      [] c.op = "setdefault" -> <<"bookmarks", "set", c.file>>
      [] c.op = "unset" -> <<"bookmarks", "unset", c.name>>
      [] c.op = "clear" -> <<"bookmarks", "clear", "--yes">>
      [] c.op = "list" -> <<"bookmarks", "list">>
      [] c.op = "info" -> <<"bookmarks", "info", c.name>>
      [] c.op = "resolve" -> <<"total", "--decimal", "--no-warn", "--no-style", "@" \o NormName(c.name)>>
      [] c.op = "resolvedefault" -> <<"total", "--decimal", "--no-warn", "--no-style">>
=============================================================================
