------------------------------ MODULE MC_Config ------------------------------
(***************************************************************************)
(* Bounded instance for KConfig: configuration files of up to three lines   *)
(* from a pool (valid and invalid values of every setting, syntax faults,   *)
(* comments, sections, repeated keys, CRLF) x environment.  TLC checks the  *)
(* laws of the model on each file and emits it as a replay case.            *)
(***************************************************************************)
EXTENDS KConfig, Json, IOUtils

VARIABLES shard, case
vars == <<shard, case>>
Out  == IOEnv.KV_OUT
Tier == IOEnv.KV_TIER
SeedN == atoi(IOEnv.KV_SEED)
Full == Tier = "thorough"
None == [kind |-> "none"]

Pool == <<"", "# comment = 1", "  ", "[section]", "[bad", "[]", "[a]b]",
          "editor = vim -n", "editor =", "editor = ", "editor=vi", "editor =vi", "editor  = vi", "ed itor = vi", "=", "novalue",
          "colour_scheme = light", "colour_scheme = basic", "colour_scheme = LIGHT", "colour_scheme = no_colour",
          "default_rounding = 15m", "default_rounding = 1h", "default_rounding = 60", "default_rounding = 7m", "default_rounding = +012m",
          "default_rounding = 15mm", "default_rounding = 30m ",
          "default_should_total = 8h!", "default_should_total = 480m", "default_should_total = -30m!", "default_should_total = 8h!!",
          "default_should_total = +1h", "default_should_total = 0m", "default_should_total = 8:00",
          "date_format = YYYY/MM/DD", "date_format = YYYY-MM-DD", "date_format = yyyy-mm-dd",
          "time_convention = 12h", "time_convention = 24h", "time_convention = 12",
          "no_warnings = MORE_THAN_24H", "no_warnings = UNCLOSED_OPEN_RANGE ,  FUTURE_ENTRIES", "no_warnings = OVERLAPPING_RANGES,OVERLAPPING_RANGES",
          "no_warnings = more_than_24h", "no_warnings = MORE_THAN_24H,", "unknown_key = 1", "\tdate_format = YYYY/MM/DD", "date_format\t= YYYY/MM/DD">>
NP == Len(Pool)
Eols == <<"\n", "\r\n">>
Envs == <<{}, {"NO_COLOR"}>>

Shards == {[a |-> i] : i \in 1..NP}
Pick(i, j, k) == (i + 3 * j + 5 * k + SeedN) % (IF Full THEN 2 ELSE 60) = 0
TextsOf(sh) ==
    {Pool[sh.a], Pool[sh.a] \o "\n"}
    \cup {Pool[sh.a] \o e \o Pool[j] \o (IF nl THEN e ELSE "") : j \in 1..NP, e \in {"\n", "\r\n"}, nl \in BOOLEAN}
    \cup {Pool[sh.a] \o "\n" \o Pool[x[1]] \o "\n" \o Pool[x[2]] \o "\n" : x \in {y \in (1..NP) \X (1..NP) : Pick(sh.a, y[1], y[2])}}

Init == shard \in Shards /\ case = None
Next == /\ case = None
        /\ \E t \in TextsOf(shard) : \E ev \in 1..2 :
              case' = [kind |-> "config", cfg |-> t, env |-> IF ev = 1 THEN <<>> ELSE <<"NO_COLOR">>]
        /\ UNCHANGED shard
Emit == Serialize(ToJson(case') \o "\n", Out,
                  [format |-> "TXT", charset |-> "UTF-8", openOptions |-> <<"WRITE", "CREATE", "APPEND">>]).exitValue = 0

EnvOf(c) == {c.env[i] : i \in 1..Len(c.env)}
(* what `klog config` shows is itself a configuration file with the same meaning (fixed point of the model) *)
Render(shown) == LET RECURSIVE f(_) f(i) == IF i > Len(Keys) THEN "" ELSE Keys[i] \o " = " \o shown[Keys[i]] \o "\n" \o f(i + 1) IN f(1)
Laws == case.kind = "config" =>
            LET r == Read(case.cfg, EnvOf(case)) IN
            /\ r.ok => Read(Render(r.shown), EnvOf(case)).ok /\ Read(Render(r.shown), EnvOf(case)).shown = r.shown
            /\ Read(case.cfg, {}).ok = Read(case.cfg, {"NO_COLOR"}).ok
=============================================================================
