INIT Init
NEXT Next
ACTION_CONSTRAINT Emit
INVARIANTS TimeRoundTrip TimeFmtRoundTrip TimeEqualities DurRoundTrip DateRoundTrip YearRoundTrip PlusInterval
CHECK_DEADLOCK FALSE
