------------------------------ MODULE KValues ------------------------------
(***************************************************************************)
(* Literals of the file format: date, time, duration; their values,         *)
(* notation flags and canonical printing; time arithmetic.                  *)
(* Written from Specification.md (sections Date, Time, Range, Duration).    *)
(*                                                                          *)
(* A time value is its offset in minutes from the record's midnight         *)
(* (-1440 .. 2879) plus the notation flag h12.  A duration is signed        *)
(* minutes plus the flags `plus' (explicit +) and `zsign' (sign written on  *)
(* a zero value: -1, 0, 1).  A date is a day ordinal plus `dashes'.         *)
(***************************************************************************)
EXTENDS KText, KCalendar

NoTime == [ok |-> FALSE, off |-> 0, h12 |-> FALSE]
MinOff == -1440
MaxOff == 2879

ParseTime(s) ==
    LET pre  == StartsWith(s, "<")
        s1   == IF pre THEN Drop(s, 1) ELSE s
        suf  == EndsWith(s1, ">")
        s2   == IF suf THEN Take(s1, Len(s1) - 1) ELSE s1
        ampm == IF EndsWith(s2, "am") THEN "am" ELSE IF EndsWith(s2, "pm") THEN "pm" ELSE ""
        s3   == IF ampm # "" THEN Take(s2, Len(s2) - 2) ELSE s2
        col  == Len(s3) - 2
    IN  IF ~(Len(s3) \in {4, 5}) THEN NoTime
        ELSE IF Ch(s3, col) # ":" \/ ~AllDigits(Take(s3, col - 1)) \/ ~AllDigits(Drop(s3, col)) THEN NoTime
        ELSE IF pre /\ suf THEN NoTime
        ELSE LET h == NatOf(Take(s3, col - 1))
                 m == NatOf(Drop(s3, col))
                 shift == IF pre THEN -1440 ELSE IF suf THEN 1440 ELSE 0
             IN  IF m > 59 THEN NoTime
                 ELSE IF ampm = ""
                      THEN IF h <= 23 THEN [ok |-> TRUE, off |-> shift + h * 60 + m, h12 |-> FALSE]
                           ELSE IF h = 24 /\ m = 0 /\ ~suf
                                THEN [ok |-> TRUE, off |-> shift + 1440, h12 |-> FALSE]
                                ELSE NoTime
                      ELSE IF h < 1 \/ h > 12 THEN NoTime
                           ELSE LET hh == IF ampm = "am" THEN (IF h = 12 THEN 0 ELSE h)
                                          ELSE (IF h = 12 THEN 12 ELSE h + 12)
                                IN  [ok |-> TRUE, off |-> shift + hh * 60 + m, h12 |-> TRUE]

FormatTime(off, h12) ==
    LET hm == (off + 1440) % 1440
        h  == hm \div 60
        m  == hm % 60
        pre == IF off < 0 THEN "<" ELSE ""
        suf == IF off >= 1440 THEN ">" ELSE ""
        body == IF ~h12 THEN NatStr(h) \o ":" \o Pad2(m)
                ELSE IF h = 0 THEN "12:" \o Pad2(m) \o "am"
                ELSE IF h < 12 THEN NatStr(h) \o ":" \o Pad2(m) \o "am"
                ELSE IF h = 12 THEN "12:" \o Pad2(m) \o "pm"
                ELSE NatStr(h - 12) \o ":" \o Pad2(m) \o "pm"
    IN  pre \o body \o suf

TimeOffOK(off) == off >= MinOff /\ off <= MaxOff
(* adding a duration: defined iff the result is between the start of the    *)
(* previous and the end of the next day                                     *)
TimePlusDefined(off, d) == TimeOffOK(off + d)

(***************************************************************************)
(* Duration                                                                 *)
(***************************************************************************)
NoDur == [ok |-> FALSE, big |-> FALSE, mins |-> 0, plus |-> FALSE, zsign |-> 0]

ParseDuration(s) ==
    LET sg   == IF StartsWith(s, "-") THEN "-" ELSE IF StartsWith(s, "+") THEN "+" ELSE ""
        r    == IF sg # "" THEN Drop(s, 1) ELSE s
        i    == SkipIn(r, 1, Digits)                  \* first non-digit
        hasH == i > 1 /\ i <= Len(r) /\ Ch(r, i) = "h"
        hs   == IF hasH THEN Take(r, i - 1) ELSE ""
        r2   == IF hasH THEN Drop(r, i) ELSE r
        j    == SkipIn(r2, 1, Digits)
        hasM == j > 1 /\ j = Len(r2) /\ Ch(r2, j) = "m"
        ms   == IF hasM THEN Take(r2, j - 1) ELSE ""
        restOK == IF hasM THEN TRUE ELSE r2 = ""
    IN  IF ~restOK \/ (~hasH /\ ~hasM) THEN NoDur
        ELSE IF (hasH /\ NumTooBig(hs)) \/ (hasM /\ NumTooBig(ms))
             THEN [NoDur EXCEPT !.big = TRUE]       \* outside the modelled integer range
        ELSE LET h == IF hasH THEN NatOf(hs) ELSE 0
                 m == IF hasM THEN NatOf(ms) ELSE 0
                 v == h * 60 + m
             IN  IF hasH /\ m > 59 THEN NoDur
                 ELSE [ok |-> TRUE, big |-> FALSE,
                       mins  |-> IF sg = "-" THEN 0 - v ELSE v,
                       plus  |-> sg = "+",
                       zsign |-> IF v # 0 THEN 0 ELSE IF sg = "-" THEN -1 ELSE IF sg = "+" THEN 1 ELSE 0]

Abs(x) == IF x < 0 THEN 0 - x ELSE x

(* canonical printing: hours only if non-zero, minutes only if non-zero, "0m" for zero *)
FormatDuration(d) ==
    IF d.mins = 0
    THEN (IF d.zsign < 0 THEN "-" ELSE IF d.zsign > 0 THEN "+" ELSE "") \o "0m"
    ELSE LET a == Abs(d.mins)
             h == a \div 60
             m == a % 60
         IN  (IF d.mins < 0 THEN "-" ELSE IF d.plus THEN "+" ELSE "")
             \o (IF h > 0 THEN NatStr(h) \o "h" ELSE "")
             \o (IF m > 0 THEN NatStr(m) \o "m" ELSE "")
FormatMins(n) == FormatDuration([mins |-> n, plus |-> FALSE, zsign |-> 0])

(***************************************************************************)
(* Date                                                                     *)
(***************************************************************************)
NoDate == [ok |-> FALSE, ord |-> 0, dashes |-> TRUE]

ParseDate(s) ==
    IF Len(s) # 10 THEN NoDate
    ELSE LET ys == SubSeq(s, 1, 4)  s1 == Ch(s, 5)  ms == SubSeq(s, 6, 7)
             s2 == Ch(s, 8)  ds == SubSeq(s, 9, 10)
         IN  IF ~AllDigits(ys) \/ ~AllDigits(ms) \/ ~AllDigits(ds) THEN NoDate
             ELSE IF ~(s1 \in {"-", "/"}) \/ s1 # s2 THEN NoDate
             ELSE LET y == NatOf(ys)  m == NatOf(ms)  d == NatOf(ds)
                  IN  IF ~ValidDate(y, m, d) THEN NoDate
                      ELSE [ok |-> TRUE, ord |-> Ord(y, m, d), dashes |-> s1 = "-"]

FormatCivil(c, dashes) == LET sep == IF dashes THEN "-" ELSE "/"
                          IN  Pad4(c.y) \o sep \o Pad2(c.m) \o sep \o Pad2(c.d)
FormatDate(ord, dashes) == FormatCivil(Civil(ord), dashes)

(***************************************************************************)
(* Rounding of automatic times: nearest multiple, ties up (command help).   *)
(***************************************************************************)
Roundings == {5, 10, 12, 15, 20, 30, 60}
RoundNearest(mins, r) == LET rem == mins % r
                         IN  IF 2 * rem >= r THEN mins - rem + r ELSE mins - rem
=============================================================================
