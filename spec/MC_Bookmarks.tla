---------------------------- MODULE MC_Bookmarks ----------------------------
(***************************************************************************)
(* C19: all histories of bookmark operations up to the tier's depth; after  *)
(* every mutation the observers are run.  TLC checks the map laws in every  *)
(* state and emits each complete history as a replay case.                  *)
(***************************************************************************)
EXTENDS KBookmarks, Json, IOUtils

VARIABLES db, hist
vars == <<db, hist>>

Out  == IOEnv.KV_OUT
Tier == IOEnv.KV_TIER
SeedN == atoi(IOEnv.KV_SEED)
Full == Tier = "thorough"
Depth == 3

Names == {"a", "@a", "@@a", "@", "default", "@B", "b", "@{a} b", "\"q\"", "@x'y", "a@", "@a@", "A"}
(* TLC writes queued states to disk and does not read characters beyond ASCII back faithfully: inside the   *)
(* states non-ASCII letters are written {a}, {u}; they are decoded when a history is emitted as a case.     *)
RECURSIVE Dec(_)
Dec(t) == IF t = "" THEN ""
          ELSE IF Len(t) >= 3 /\ Take(t, 3) = "{a}" THEN "ä" \o Dec(Drop(t, 3))
          ELSE IF Len(t) >= 3 /\ Take(t, 3) = "{u}" THEN "ü" \o Dec(Drop(t, 3))
          ELSE Take(t, 1) \o Dec(Drop(t, 1))
RECURSIVE Enc(_)
Enc(t) == IF t = "" THEN "" ELSE (IF Take(t, 1) = "ä" THEN "{a}" ELSE IF Take(t, 1) = "ü" THEN "{u}" ELSE Take(t, 1)) \o Enc(Drop(t, 1))
EFiles == [i \in 1..Len(Files) |-> Enc(Files[i])]
DecCmd(c) == [c EXCEPT !.file = Dec(@), !.name = Dec(@)]
C(op, file, name) == [op |-> op, file |-> file, name |-> name, answer |-> ""]
Ask(ans) == [C("clearask", "", "") EXCEPT !.answer = ans]
Muts == {C("set", EFiles[i], n) : i \in 1..Len(Files), n \in Names}
        \cup {C("setdefault", EFiles[i], "") : i \in 1..Len(Files)}
        \cup {C("unset", "", n) : n \in Names}
        \cup {C("clear", "", "")}
        \cup {Ask(a) : a \in {"y", "y\n", "Y\r\n", "n\n", "yes\n", "\ny\n", ""}}
(* quick tier: a seed-rotated third of the mutations at depth >= 2 *)
H(c) == Len(c.file) + 3 * Len(c.name) + (IF c.op = "unset" THEN 1 ELSE 0)
Allowed(c, k) == k = 0 \/ (H(c) + SeedN + k) % (IF Full THEN 5 ELSE 16) = 0 \/ c.op = "clear"
                 \/ (c.op = "clearask" /\ (Len(c.answer) + SeedN + k) % 3 = 0)

Observers(d) == <<C("list", "", "")>>
                \o [i \in 1..2 |-> C("info", "", <<"@a", "default">>[i])]
                \o <<C("resolve", "", "a"), C("resolve", "", "{a} b"), C("resolvedefault", "", ""),
                     C("info", "", "@b"), C("resolve", "", "A"), C("resolvemix", "", "a"), C("resolvemix2", "", "default"),
                     C("resolveblank", "", "a")>>

Init == db = EmptyDb /\ hist = <<>>
Next == /\ Len(hist) < Depth
        /\ \E c \in Muts :
              /\ Allowed(c, Len(hist))
              /\ hist' = Append(hist, c)
              /\ db' = After(db, c)

RECURSIVE Steps(_, _)
Steps(h, i) == IF i > Len(h) THEN <<>>
               ELSE <<h[i]>> \o Observers(0) \o Steps(h, i + 1)
FileMap == [i \in 1..Len(Files) |-> Files[i]]
CaseOf(h) == LET st == Steps(h, 1) IN
             [kind |-> "cli", parse |-> FALSE, repeat |-> 1, cfg |-> "",
              files |-> [f \in {Files[i] : i \in 1..Len(Files)} |-> "2020-01-01\n    " \o NatStr(FileMinutes(f) \div 60) \o "h\n"],
              cmds |-> [i \in 1..Len(st) |-> [args |-> ToArgs(DecCmd(st[i])), now |-> "2020-01-01T12:00:00", ticks |-> <<>>, cmd |-> DecCmd(st[i]), stdin |-> st[i].answer]]]

Emit == Len(hist') = Depth =>
            Serialize(ToJson(CaseOf(hist')) \o "\n", Out,
                      [format |-> "TXT", charset |-> "UTF-8",
                       openOptions |-> <<"WRITE", "CREATE", "APPEND">>]).exitValue = 0

(* map laws *)
NormIdempotent == \A n \in Names : NormName(NormName(n)) = NormName(n) /\ Dec(NormName(n)) \in {NameOrder[i] : i \in 1..Len(NameOrder)}
DbWellFormed == \A n \in DOMAIN db : NormName(n) = n /\ db[n] \in {EFiles[i] : i \in 1..Len(Files)}
StepLaw == [][LET c == hist'[Len(hist')] IN
              /\ c.op = "clear" => db' = EmptyDb
              /\ c.op = "unset" => (IF Has(db, NormName(c.name)) THEN DOMAIN db' = DOMAIN db \ {NormName(c.name)} ELSE db' = db)
              /\ c.op \in {"set", "setdefault"} => \A n \in DOMAIN db : n # NormName(IF c.op = "set" THEN c.name ELSE "") => db'[n] = db[n]
              /\ Listing(db', "") = Listing(db', "")]_vars
=============================================================================
