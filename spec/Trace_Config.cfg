INIT Init
NEXT Next
INVARIANT Accept
CHECK_DEADLOCK FALSE
