SPECIFICATION Spec
CONSTANTS N = 6
 StoreByArrival = FALSE
INVARIANTS ByIndex NoSendAfterClose EachOnce
PROPERTY CollectorTerminates
