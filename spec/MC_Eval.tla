------------------------------- MODULE MC_Eval -------------------------------
(***************************************************************************)
(* C02, C12, C13, C14, C17 (--now), C18, C20: bounded instance for the      *)
(* read-only commands.  A state is a file (built from pools of entries,     *)
(* dates, should-totals and summaries) plus the clock; TLC checks the       *)
(* algebraic laws of KEval on every file and emits file + command runs as   *)
(* a replay case.  IOEnv.KV_MODE selects the scenario family.               *)
(***************************************************************************)
EXTENDS KEval, Json, IOUtils

VARIABLES shard, case
vars == <<shard, case>>

Out  == IOEnv.KV_OUT
Tier == IOEnv.KV_TIER
SeedN == atoi(IOEnv.KV_SEED)
Mode == IOEnv.KV_MODE
Full == Tier = "thorough"
None == [kind |-> "none"]
Pick(i, n, k) == Full \/ (i + SeedN) % n < k

E(lit, sum) == [lit |-> lit, sum |-> sum, more |-> <<>>]
EM(lit, sum, more) == [lit |-> lit, sum |-> sum, more |-> more]      \* with continuation lines
RecOf(ord, should, rsum, entries) == [ord |-> ord, should |-> should, rsum |-> rsum, entries |-> entries, dashes |-> TRUE]
Slashed(r) == [r EXCEPT !.dashes = FALSE]

RECURSIVE EntryText(_, _)
RECURSIVE ContText(_)
ContText(ls) == IF ls = <<>> THEN "" ELSE "        " \o Head(ls) \o "\n" \o ContText(Tail(ls))
EntryText(es, i) == IF i > Len(es) THEN ""
                    ELSE "    " \o es[i].lit \o (IF es[i].sum # "" THEN " " \o es[i].sum ELSE "") \o "\n"
                         \o ContText(es[i].more) \o EntryText(es, i + 1)
RECURSIVE LinesText(_)
LinesText(ls) == IF ls = <<>> THEN "" ELSE Head(ls) \o "\n" \o LinesText(Tail(ls))
RecText(r) == FormatDate(r.ord, r.dashes) \o (IF r.should # "" THEN " (" \o r.should \o ")" ELSE "") \o "\n"
              \o LinesText(r.rsum) \o EntryText(r.entries, 1)
RECURSIVE FileText(_)
FileText(rs) == IF rs = <<>> THEN "" ELSE IF Len(rs) = 1 THEN RecText(rs[1]) ELSE RecText(rs[1]) \o "\n" \o FileText(Tail(rs))

Stamp(now) == FormatDate(now.ord, TRUE) \o "T" \o Pad2(now.min \div 60) \o ":" \o Pad2(now.min % 60) \o ":" \o Pad2(now.sec)
NowOf(ord, min) == [ord |-> ord, min |-> min, sec |-> 30]

Run(id, args) == [id |-> id, args |-> args, cfg |-> "", env |-> ("NO_COLOR" :> "1"), q |-> NoQuery, now |-> FALSE]
RunQ(id, args, q) == [Run(id, args) EXCEPT !.q = q]
(* the process time zone: around the Sundays on which daylight saving time starts at midnight in Chile the cases *)
(* run there (that midnight does not exist); otherwise the supervisor rotates the zone ("")                        *)
ChileSundays == {Ord(2019, 9, 8), Ord(2020, 9, 6), Ord(2021, 9, 5)}
ZoneFor(now) == IF \E d \in ChileSundays : now.ord >= d - 13 /\ now.ord <= d + 8 THEN "America/Santiago" ELSE ""
CaseOf(text, now, runs) == [kind |-> "eval", text |-> text, now |-> Stamp(now), nowv |-> now, runs |-> runs, tz |-> ZoneFor(now)]

T0 == Ord(2020, 3, 15)

(***************************************************************************)
(* total: every combination of entry kinds, shifts, should-totals, dates    *)
(* relative to now, evaluated with and without --now                        *)
(***************************************************************************)
Vals == <<"1h", "-30m", "0m", "8:00 - 9:30", "<23:00 - 1:00", "22:00 - 0:30>", "<22:00 - <23:00", "12:00 - 13:00",
          "12:30 - 13:30", "23:00 - 24:00", "+2h15m", "0:00> - 1:00>", "9:00 - ?", "<23:30 - ?", "0:00 - ?", "18:00 - ?",
          "12:00am - 12:00pm", "-2h59m", "120h", "<0:00 - 23:59>">>
NVals == Len(Vals)
Shoulds == <<"", "8h!", "-1h!", "30m!", "0m!">>
TotalRuns == <<Run("json", <<"json">>), Run("total:plain", <<"total", "--diff", "--decimal", "--no-warn">>),
               [Run("total:now", <<"total", "--diff", "--decimal", "--now", "--no-warn">>) EXCEPT !.now = TRUE],
               Run("total:hm", <<"total", "--diff", "--no-warn">>),
               Run("pwt", <<"print", "--with-totals", "--no-style", "--no-warn">>),
               [Run("json:now", <<"json", "--now">>) EXCEPT !.now = TRUE],
               Run("today", <<"today", "--diff", "--decimal", "--no-warn">>),
               [Run("today:now", <<"today", "--diff", "--decimal", "--now", "--no-warn">>) EXCEPT !.now = TRUE],
               [Run("report:day:plain", <<"report", "--decimal", "--diff", "--now", "--no-warn">>) EXCEPT !.now = TRUE],
               [Run("report:week:fill", <<"report", "--aggregate", "week", "--fill", "--decimal", "--now", "--no-warn">>) EXCEPT !.now = TRUE],
               (* beyond the listed properties: the warnings (KWarn) *)
               Run("warn:all", <<"print", "--no-style">>),
               [Run("warn:cfg", <<"total">>) EXCEPT !.cfg = "no_warnings = UNCLOSED_OPEN_RANGE, OVERLAPPING_RANGES\n"]>>
TotalShards == {[k |-> "total", a |-> i, b |-> j] : i \in 1..NVals, j \in 0..NVals}
TotalCases(sh) ==
    LET es == IF sh.b = 0 THEN <<E(Vals[sh.a], "")>>
              ELSE IF (sh.a + sh.b) % 3 = 0
              THEN <<EM(Vals[sh.a], "", <<"starts on the next line #n", "third line">>), EM(Vals[sh.b], "#t first", <<"second #s=1">>)>>
              ELSE <<E(Vals[sh.a], "x"), E(Vals[sh.b], "#t")>>
        hasOpen == \E i \in 1..Len(es) : Ch(es[i].lit, Len(es[i].lit)) = "?"
        twoOpen == Cardinality({i \in 1..Len(es) : Ch(es[i].lit, Len(es[i].lit)) = "?"}) > 1
        dates == IF hasOpen THEN {T0, T0 - 1, T0 - 2, T0 + 1} ELSE {T0}
        mins == IF hasOpen THEN {0, 8 * 60 + 30, 17 * 60 + 59, 18 * 60, 23 * 60 + 59} ELSE {12 * 60}
        (* a second record with its own open range, before or after: both must be closed at the same instant *)
        extraOpen == {CaseOf(FileText(IF first THEN <<RecOf(d2, "", <<>>, <<E("6:00 - ?", "#o2")>>), RecOf(d, "", <<>>, es)>>
                                      ELSE <<RecOf(d, "", <<>>, es), RecOf(d2, "", <<>>, <<E("6:00 - ?", "#o2")>>)>>),
                             NowOf(T0, m), TotalRuns)
                        : d \in {T0, T0 - 1}, d2 \in {T0, T0 - 1}, m \in {8 * 60 + 30, 23 * 60 + 59}, first \in BOOLEAN}
    IN  IF hasOpen /\ ~twoOpen /\ sh.b = 0 THEN extraOpen \cup
            {CaseOf(FileText(<<RecOf(d, Shoulds[2], <<>>, es), RecOf(T0, "1h!", <<>>, <<E("30m", "today")>>)>>), NowOf(T0, m), TotalRuns)
                : d \in dates, m \in mins}
        ELSE IF twoOpen \/ (~Pick(sh.a * 3 + sh.b, 3, 1) /\ sh.b # 0) THEN {}
        ELSE {CaseOf(FileText(<<RecOf(d, Shoulds[s], <<>>, es), RecOf(d, "", <<>>, <<E("-15m", "same date, next record")>>),
                               RecOf(T0 - 5, Shoulds[1 + (s % 5)], <<"other: 50% done, %d %s %v 100%">>, <<E("1h", "5% \\n \"q\" <b> & 'x'")>>),
                               RecOf(d, "", <<>>, <<E("-15m", "dup date")>>), RecOf(T0, "1h!", <<>>, <<E("30m", "today")>>)>>),
                     NowOf(T0, m), TotalRuns)
                : d \in dates, m \in mins, s \in {ss \in 1..5 : Pick(ss + sh.a, 5, 2)}}

(***************************************************************************)
(* report: dates around week-year, month, quarter and year boundaries       *)
(***************************************************************************)
DatePool == <<Ord(2019, 12, 28), Ord(2019, 12, 29), Ord(2019, 12, 30), Ord(2019, 12, 31), Ord(2020, 1, 1), Ord(2020, 1, 5),
              Ord(2020, 1, 6), Ord(2020, 2, 28), Ord(2020, 2, 29), Ord(2020, 3, 1), Ord(2020, 3, 31), Ord(2020, 4, 1),
              Ord(2020, 12, 27), Ord(2020, 12, 28), Ord(2020, 12, 31), Ord(2021, 1, 1), Ord(2021, 1, 3), Ord(2021, 1, 4),
              Ord(2015, 12, 31), Ord(2016, 1, 3), Ord(2016, 1, 4), Ord(2024, 12, 30), Ord(2025, 1, 1), Ord(2020, 3, 15), Ord(2020, 3, 14),
              Ord(0, 1, 3), Ord(0, 3, 1), Ord(0, 12, 31)>>        \* the first representable year
ND == Len(DatePool)
Amounts == <<"1h", "-2h", "8:00 - 12:30", "45m", "0m", "10h">>
ReportRuns ==
    <<RunQ("report:month:plain", <<"report", "--aggregate", "month", "--decimal", "--diff", "--no-warn", "--since", "2020-01-01">>,
           [NoQuery EXCEPT !.since = Ord(2020, 1, 1)]),
      RunQ("report:week:fill", <<"report", "--aggregate", "week", "--decimal", "--fill", "--no-warn", "--until", "2020-12-31", "--since", "2019-12-30">>,
           [NoQuery EXCEPT !.since = Ord(2019, 12, 30), !.until = Ord(2020, 12, 31)]),
      RunQ("report:day:plain", <<"report", "--decimal", "--diff", "--no-warn", "--entry-type", "duration">>, [NoQuery EXCEPT !.etype = "duration"]),
      Run("json", <<"json">>), Run("total:plain", <<"total", "--diff", "--decimal", "--no-warn">>),
      Run("today", <<"today", "--diff", "--decimal", "--no-warn">>),
      Run("pwt", <<"print", "--with-totals", "--no-style", "--no-warn">>)>>
    \o [i \in 1..5 |-> LET k == <<"day", "week", "month", "quarter", "year">>[i] IN
                       Run("report:" \o k \o ":plain", <<"report", "--aggregate", k, "--decimal", "--diff", "--no-warn">>)]
    \o [i \in 1..5 |-> LET k == <<"day", "week", "month", "quarter", "year">>[i] IN
                       Run("report:" \o k \o ":fill", <<"report", "--aggregate", k, "--decimal", "--fill", "--no-warn">>)]
ReportShards == {[k |-> "report", a |-> i, b |-> j] : i \in 1..ND, j \in 1..ND} \cup {[k |-> "report", a |-> 0, b |-> 0]}
(* records centuries apart: the rows of a filled report still reach from the first to the last record *)
SpanRuns == <<Run("report:year:fill", <<"report", "--aggregate", "year", "--fill", "--decimal", "--no-warn">>),
              Run("report:quarter:fill", <<"report", "--aggregate", "quarter", "--fill", "--decimal", "--no-warn">>),
              Run("report:year:plain", <<"report", "--aggregate", "year", "--decimal", "--diff", "--no-warn">>),
              Run("total:plain", <<"total", "--diff", "--decimal", "--no-warn">>)>>
SpanCases == {CaseOf(FileText(<<RecOf(Ord(1700, 1, 1), "", <<>>, <<E("1h", "")>>), RecOf(Ord(1992, 6, 1), "8h!", <<>>, <<E("30m", "")>>),
                               RecOf(Ord(2024, 3, 1), "", <<>>, <<E("6h", "")>>)>>), NowOf(Ord(2020, 3, 15), 720), SpanRuns)}
(* the dates of one file come from the same window, so that --fill stays small *)
Window(i) == IF i <= 12 THEN 1 ELSE IF i <= 18 THEN 2 ELSE IF i <= 21 THEN 3 ELSE IF i <= 23 THEN 4 ELSE IF i <= 25 THEN 1 ELSE 5
ReportCases(sh) ==
    IF sh.a = 0 THEN SpanCases ELSE
    IF ~Pick(sh.a + 7 * sh.b, 3, 1) \/ Window(sh.a) # Window(sh.b) THEN {}
    ELSE {CaseOf(FileText(<<RecOf(DatePool[sh.a], "8h!", <<>>, <<E(Amounts[1 + (sh.a % 6)], "")>>),
                           RecOf(DatePool[sh.b], "", <<>>, <<E(Amounts[1 + (sh.b % 6)], ""), E("30m", "")>>),
                           RecOf(DatePool[c], "-1h!", <<>>, <<E(Amounts[1 + ((sh.a + c) % 6)], "")>>),
                           RecOf(DatePool[sh.a], "", <<>>, <<E("15m", "same date again")>>)>>),
                 NowOf(Ord(2020, 3, 15), 720), ReportRuns)
            : c \in {cc \in 1..ND : Window(cc) = Window(sh.a) /\ Pick(cc + sh.a + sh.b, 3, 1)}}

(***************************************************************************)
(* filter: every clause kind, boundary dates equal to record dates, the     *)
(* relative shortcuts at several reference dates                            *)
(***************************************************************************)
RefDates == <<Ord(2020, 3, 15), Ord(2020, 1, 1), Ord(2021, 1, 3), Ord(2020, 3, 1), Ord(2020, 12, 31), Ord(2024, 2, 29), Ord(2020, 9, 3)>>
(* record dates relative to the reference date *)
Offsets == <<-400, -366, -95, -35, -29, -8, -7, -6, -1, -1, 0, 0, 1, 6, 7, 31>>     \* some dates twice
FilterFile(ref) ==
    [i \in 1..Len(Offsets) |->
        LET r == RecOf(ref + Offsets[i], IF i % 2 = 0 THEN "8h!" ELSE IF i % 5 = 0 THEN "-30m!" ELSE "", IF i % 4 = 0 THEN <<"day #rec=R" \o NatStr(i % 3) \o " #all">> ELSE <<>>,
                       <<E("1h", IF i % 2 = 0 THEN "#a #b=1" ELSE "#B=2 x"), E("8:00 - 9:00", IF i % 3 = 0 THEN "#a=x" ELSE ""),
                         E("-30m", "#c"), E("10:00 - ?", "#open"),
                         EM("2h", "", <<"Planning #proj=alpha" \o NatStr(i % 2)>>), EM("3h", "first", <<"then #proj=alpha0 #c">>)>>)
        IN  IF i % 3 = 1 THEN Slashed(r) ELSE r]      \* both date notations in one file
D(o) == FormatDate(o, TRUE)
Q(at, since, until) == [NoQuery EXCEPT !.at = at, !.since = since, !.until = until]
P(kind, o) == PeriodOf(kind, o)
WeekPat(o) == NatStr(IsoWeekYear(o)) \o "-W" \o Pad2(IsoWeek(o))
FilterRunsFor(ref) ==
    LET dates == {ref + Offsets[i] : i \in {3, 6, 7, 9, 11, 13}} \cup {ref + 2}
        dateRuns == UNION {{RunQ("json:date", <<"json", "--date", D(d)>>, Q(d, -1, -1)),
                            RunQ("json:since", <<"json", "--since", D(d)>>, Q(-1, d, -1)),
                            RunQ("json:until", <<"json", "--until", D(d)>>, Q(-1, -1, d)),
                            RunQ("json:after", <<"json", "--after", D(d)>>, Q(-1, d + 1, -1)),
                            RunQ("json:before", <<"json", "--before", D(d)>>, Q(-1, -1, d - 1)),
                            RunQ("json:between", <<"json", "--since", D(d), "--until", D(d + 7)>>, Q(-1, d, d + 7)),
                            RunQ("json:period-m", <<"json", "--period", Take(D(d), 7)>>, Q(-1, P("month", d).since, P("month", d).until)),
                            RunQ("json:period-y", <<"json", "--period", Take(D(d), 4)>>, Q(-1, P("year", d).since, P("year", d).until)),
                            RunQ("json:period-q", <<"json", "--period", Take(D(d), 4) \o "-Q" \o NatStr(Quarter(Civil(d).m))>>,
                                 Q(-1, P("quarter", d).since, P("quarter", d).until)),
                            RunQ("json:period-w", <<"json", "--period", WeekPat(d)>>, Q(-1, P("week", d).since, P("week", d).until))}
                           : d \in dates}
        prev(kind) == PeriodOf(kind, PeriodOf(kind, ref).since - 1)
        shortcuts == {RunQ("json:today", <<"json", "--today">>, Q(ref, -1, -1)),
                      RunQ("json:yesterday", <<"json", "--yesterday">>, Q(ref - 1, -1, -1)),
                      RunQ("json:tomorrow", <<"json", "--tomorrow">>, Q(ref + 1, -1, -1)),
                      RunQ("json:this-week", <<"json", "--this-week">>, Q(-1, P("week", ref).since, P("week", ref).until)),
                      RunQ("json:last-week", <<"json", "--last-week">>, Q(-1, prev("week").since, prev("week").until)),
                      RunQ("json:this-month", <<"json", "--this-month">>, Q(-1, P("month", ref).since, P("month", ref).until)),
                      RunQ("json:last-month", <<"json", "--last-month">>, Q(-1, prev("month").since, prev("month").until)),
                      RunQ("json:this-quarter", <<"json", "--this-quarter">>, Q(-1, P("quarter", ref).since, P("quarter", ref).until)),
                      RunQ("json:last-quarter", <<"json", "--last-quarter">>, Q(-1, prev("quarter").since, prev("quarter").until)),
                      RunQ("json:this-year", <<"json", "--this-year">>, Q(-1, P("year", ref).since, P("year", ref).until)),
                      RunQ("json:last-year", <<"json", "--last-year">>, Q(-1, prev("year").since, prev("year").until)),
                      RunQ("json:thisweek", <<"json", "--thisweek">>, Q(-1, P("week", ref).since, P("week", ref).until)),
                      RunQ("json:lastyear", <<"json", "--lastyear">>, Q(-1, prev("year").since, prev("year").until))}
        tagQs == {<<"a", {<<"a", "">>}>>, <<"#a", {<<"a", "">>}>>, <<"A", {<<"a", "">>}>>, <<"b=1", {<<"b", "1">>}>>, <<"b=2", {<<"b", "2">>}>>,
                  <<"b", {<<"b", "">>}>>, <<"a=x", {<<"a", "x">>}>>, <<"a=X", {<<"a", "X">>}>>, <<"rec=R1", {<<"rec", "R1">>}>>,
                  <<"rec", {<<"rec", "">>}>>, <<"all", {<<"all", "">>}>>, <<"c", {<<"c", "">>}>>, <<"nope", {<<"nope", "">>}>>,
                  <<"proj=alpha0", {<<"proj", "alpha0">>}>>, <<"proj", {<<"proj", "">>}>>}
        tagRuns == {RunQ("json:tag", <<"json", "--tag", t[1]>>, [NoQuery EXCEPT !.tags = t[2]]) : t \in tagQs}
                   \cup {RunQ("json:tag2", <<"json", "--tag", "a", "--tag", "b=1">>, [NoQuery EXCEPT !.tags = {<<"a", "">>, <<"b", "1">>}]),
                         RunQ("json:tag2", <<"json", "--tag", "all", "--tag", "c">>, [NoQuery EXCEPT !.tags = {<<"all", "">>, <<"c", "">>}]),
                         (* no entry carries both: nothing is selected, whatever entries came before *)
                         RunQ("json:tag2", <<"json", "--tag", "c", "--tag", "open">>, [NoQuery EXCEPT !.tags = {<<"c", "">>, <<"open", "">>}]),
                         RunQ("json:tag2", <<"json", "--tag", "a=x", "--tag", "b">>, [NoQuery EXCEPT !.tags = {<<"a", "x">>, <<"b", "">>}])}
        types == {"range", "open-range", "duration", "duration-positive", "duration-negative"}
        typeRuns == {RunQ("json:type", <<"json", "--entry-type", t>>, [NoQuery EXCEPT !.etype = t]) : t \in types}
                    \cup {RunQ("json:type", <<"json", "--entry-type", "OPEN_RANGE">>, [NoQuery EXCEPT !.etype = "open-range"])}
        combos == {RunQ("json:combo", <<"json", "--since", D(ref - 8), "--tag", "a", "--entry-type", "duration">>,
                        [NoQuery EXCEPT !.since = ref - 8, !.tags = {<<"a", "">>}, !.etype = "duration"]),
                   RunQ("json:combo", <<"json", "--this-month", "--tag", "b=1">>,
                        [NoQuery EXCEPT !.since = P("month", ref).since, !.until = P("month", ref).until, !.tags = {<<"b", "1">>}]),
                   RunQ("json:combo", <<"json", "--date", D(ref), "--entry-type", "range", "--tag", "a">>,
                        [NoQuery EXCEPT !.at = ref, !.tags = {<<"a", "">>}, !.etype = "range"]),
                   RunQ("print:combo", <<"print", "--no-style", "--no-warn", "--until", D(ref), "--tag", "c", "--entry-type", "duration-negative">>,
                        [NoQuery EXCEPT !.until = ref, !.tags = {<<"c", "">>}, !.etype = "duration-negative"])}
        sorts == {RunQ("json:sort-asc", <<"json", "--sort", "asc">>, NoQuery), RunQ("json:sort-desc", <<"json", "--sort", "desc">>, NoQuery),
                  RunQ("json:sort-ASC", <<"json", "--sort", "ASC", "--tag", "a">>, [NoQuery EXCEPT !.tags = {<<"a", "">>}])}
        all == dateRuns \cup shortcuts \cup tagRuns \cup typeRuns \cup combos \cup sorts \cup {RunQ("json", <<"json">>, NoQuery)}
        (* the same selections through `klog print` (canonical text of exactly the selected data) *)
        printTwins == {[r EXCEPT !.id = "print" \o Drop(r.id, 4), !.args = <<"print", "--no-style", "--no-warn">> \o Tail(r.args)]
                         : r \in {x \in all : StartsWith(x.id, "json") /\ ~StartsWith(x.id, "json:sort")}}
    IN  all \cup printTwins
SetToSeq(S) == LET RECURSIVE f(_) f(X) == IF X = {} THEN <<>> ELSE LET x == CHOOSE y \in X : TRUE IN <<x>> \o f(X \ {x}) IN f(S)
FilterShards == {[k |-> "filter", a |-> i, b |-> j] : i \in 1..Len(RefDates), j \in 0..2}
FilterCases(sh) ==
    LET ref == RefDates[sh.a]
        recs == FilterFile(ref)
        (* the same records in file order (b = 0) or reversed (b = 1) *)
        n == Len(recs)
        (* ... or shuffled: the even positions first, then the odd ones backwards (no date order at all) *)
        ordered == IF sh.b = 0 THEN recs ELSE IF sh.b = 1 THEN [i \in 1..n |-> recs[n + 1 - i]]
                   ELSE [i \in 1..n |-> IF i <= n \div 2 THEN recs[2 * i] ELSE recs[2 * (n - i) + 1]]
    IN  {CaseOf(FileText(ordered), NowOf(ref, 600), SetToSeq(FilterRunsFor(ref)))}

(***************************************************************************)
(* sort: all arrangements of three or four records whose dates are chosen   *)
(* to confuse a field-wise comparison (same month or day in other years,    *)
(* both notations); every command that orders records by date               *)
(***************************************************************************)
SortPool == <<Ord(2022, 12, 30), Ord(2023, 12, 24), Ord(2024, 12, 3), Ord(2024, 1, 31), Ord(2023, 2, 28), Ord(2024, 2, 1)>>
SortRuns == <<RunQ("json:sort-asc", <<"json", "--sort", "asc">>, NoQuery), RunQ("json:sort-desc", <<"json", "--sort", "desc">>, NoQuery),
              Run("sortprint:asc", <<"print", "--no-style", "--no-warn", "--sort", "asc">>),
              Run("sortprint:desc", <<"print", "--no-style", "--no-warn", "--sort", "desc">>),
              Run("pwt:sort-asc", <<"print", "--with-totals", "--no-style", "--no-warn", "--sort", "asc">>),
              Run("pwt:sort-desc", <<"print", "--sort", "desc", "--with-totals", "--no-style", "--no-warn">>),
              Run("report:day:plain", <<"report", "--decimal", "--diff", "--no-warn">>),
              Run("report:month:fill", <<"report", "--aggregate", "month", "--fill", "--decimal", "--no-warn">>),
              Run("total:plain", <<"total", "--diff", "--decimal", "--no-warn">>)>>
SortShards == {[k |-> "sort", a |-> i, b |-> j] : i \in 1..Len(SortPool), j \in 1..Len(SortPool)}
SortRec(i, n) == LET r == RecOf(SortPool[i], IF n = 2 THEN "8h!" ELSE "", <<>>, <<E(NatStr(n) \o "h", "#n" \o NatStr(i))>>)
                 IN  IF (i + n) % 2 = 0 THEN Slashed(r) ELSE r
SortCases(sh) ==
    IF sh.a = sh.b THEN {}
    ELSE {CaseOf(FileText(<<SortRec(sh.a, 1), SortRec(sh.b, 2), SortRec(c, 3)>>), NowOf(T0, 720), SortRuns)
            : c \in {cc \in 1..Len(SortPool) : cc # sh.a /\ cc # sh.b}}
         \cup {CaseOf(FileText(<<SortRec(sh.a, 1), SortRec(sh.b, 2), SortRec(c, 3), SortRec(d, 4)>>), NowOf(T0, 720), SortRuns)
            : c \in {cc \in 1..Len(SortPool) : cc # sh.a /\ cc # sh.b /\ Pick(cc + sh.a, 2, 1)},
              d \in {dd \in 1..Len(SortPool) : dd # sh.a /\ dd # sh.b /\ Pick(dd + sh.b, 3, 1)}}

(***************************************************************************)
(* shortcuts: every day of a non-leap and a leap year as reference date x   *)
(* every relative shortcut; the file holds records at the boundaries of the *)
(* period the shortcut denotes (the day before, first, last, the day after) *)
(***************************************************************************)
RECURSIVE SortedSeq(_)
SortedSeq(S) == IF S = {} THEN <<>> ELSE LET m == CHOOSE x \in S : \A y \in S : x <= y IN <<m>> \o SortedSeq(S \ {m})
ShortcutKinds == <<"this-week", "last-week", "this-month", "last-month", "this-quarter", "last-quarter", "this-year", "last-year",
                   "today", "yesterday", "tomorrow">>
ShortcutPeriod(k, ref) ==
    LET kind == CASE k \in {"this-week", "last-week"} -> "week" [] k \in {"this-month", "last-month"} -> "month"
                  [] k \in {"this-quarter", "last-quarter"} -> "quarter" [] k \in {"this-year", "last-year"} -> "year"
                  [] OTHER -> "day"
        cur == PeriodOf(kind, ref)
    IN  CASE k = "yesterday" -> [since |-> ref - 1, until |-> ref - 1]
          [] k = "tomorrow" -> [since |-> ref + 1, until |-> ref + 1]
          [] k = "today" -> cur
          [] StartsWith(k, "this-") -> cur
          [] OTHER -> PeriodOf(kind, cur.since - 1)
ShortcutShards == {[k |-> "shortcuts", a |-> y, b |-> m] : y \in {2023, 2024}, m \in 1..12}
ShortcutCases(sh) ==
    {LET ref == Ord(sh.a, sh.b, d)
         k == ShortcutKinds[ki]
         p == ShortcutPeriod(k, ref)
         mid == (p.since + p.until) \div 2
         ds == SortedSeq({p.since - 1, p.since, mid, p.until, p.until + 1, ref})
         recs == [i \in 1..Len(ds) |-> RecOf(ds[i], "", <<>>, <<E("1h", "")>>)]
     IN  CaseOf(FileText(recs), NowOf(ref, 700),
                <<RunQ("json:" \o k, <<"json", "--" \o k>>, Q(-1, p.since, p.until)),
                  RunQ("json:alias", <<"json", "--" \o (IF ki <= 8 THEN Take(k, 4) \o Drop(k, 5) ELSE k)>>, Q(-1, p.since, p.until))>>)
        : d \in {dd \in 1..DaysInMonth(sh.a, sh.b) : Full \/ dd \in {1, 2, 15, 28, 29, 30, 31} \/ (dd + SeedN) % 5 = 0},
          ki \in 1..Len(ShortcutKinds)}
(***************************************************************************)
(* tags: all short summaries over a tag alphabet                            *)
(***************************************************************************)
TagAlpha == <<"a", "B", "ä", "Ä", "日", "1", "#", "=", "\"", "'", "_", "-", " ", "!">>
NA == Len(TagAlpha)
TagRuns == <<Run("json", <<"json">>), Run("tags", <<"tags", "--values", "--count", "--decimal", "--no-warn">>)>>
TagShards == {[k |-> "tags", a |-> i, b |-> j] : i \in 1..NA, j \in 1..NA} \cup {[k |-> "tags", a |-> 0, b |-> 0]}
             \cup {[k |-> "tags", a |-> -1, b |-> j] : j \in 1..NA}
Redundant == <<"#a #a", "#a=1 #a", "#a #a=1 #A=1", "#x=\"p q\" #x='p q' #x=p", "#t=1 #t=2 #T", "no tags at all", "#a-b_c=d-e_f",
               "#日本=語 #ÄB", "(#a, #b); #c.", "#a=\"unterminated #b", "#a='x' #a=\"x\" #a=x", "##a #=b # c", "#a=b=c", "#a=\"\" #b=''",
               "#k=ab", "#k=AB #K=ab", "#K=Ab #k=aB", "#size='5\"' #note=\"'tbd'\"", "#q=\"'\" #r='\"'", "#v=\"a'b\" #w='a\"b'">>
QuoteAlpha == <<"a", "\"", "'", " ", "B">>
TagCases(sh) ==
    IF sh.a = -1      \* values: `#a=` + three characters, and + four characters over the quote alphabet
    THEN {CaseOf(FileText(<<RecOf(T0, "", <<"x">>,
                           <<E("1h", "#a=" \o TagAlpha[sh.b] \o TagAlpha[c] \o TagAlpha[d] \o " #b"), E("2h", "#A=" \o TagAlpha[c] \o TagAlpha[sh.b])>>)>>),
                 NowOf(T0, 720), TagRuns) : c, d \in 1..NA}
         \cup (IF sh.b > Len(QuoteAlpha) THEN {} ELSE
               {CaseOf(FileText(<<RecOf(T0, "", <<>>,
                           <<E("1h", "#a=" \o QuoteAlpha[sh.b] \o QuoteAlpha[c] \o QuoteAlpha[d] \o QuoteAlpha[e] \o QuoteAlpha[f])>>)>>),
                       NowOf(T0, 720), TagRuns) : c, d, e, f \in 1..Len(QuoteAlpha)})
    ELSE IF sh.a = 0
    THEN {CaseOf(FileText(<<RecOf(T0, "", <<Redundant[i]>>, <<E("1h", Redundant[j]), E("30m", ""), E("8:00 - 9:00", Redundant[i])>>)>>),
                 NowOf(T0, 720), TagRuns) : i, j \in 1..Len(Redundant)}
         (* more different tags than any fixed table holds; the first one recurs at the end *)
         \cup {CaseOf(FileText(<<RecOf(T0, "", <<>>, [i \in 1..n |-> E("1h", "#ticket=" \o NatStr(i) \o (IF i % 7 = 0 THEN " #late" ELSE ""))]
                                                     \o <<E("30m", "#ticket=1 #late")>>)>>), NowOf(T0, 720), TagRuns) : n \in {31, 32, 33, 40, 70}}
         (* tags on continuation lines: the text of an entry may start on the line after its value *)
         \cup {CaseOf(FileText(<<RecOf(T0, "", <<Redundant[i], "second line " \o Redundant[j]>>,
                                       <<EM("1h", "", <<Redundant[j] \o " follow-up">>), EM("30m", Redundant[i], <<"cont", Redundant[j] \o " end">>),
                                         E("8:00 - 9:00", "")>>)>>),
                      NowOf(T0, 720), TagRuns) : i, j \in 1..Len(Redundant)}
    ELSE {CaseOf(FileText(<<RecOf(T0, "", <<"x">>,
                           <<E("1h", "#" \o TagAlpha[sh.a] \o TagAlpha[sh.b] \o TagAlpha[c] \o TagAlpha[d]),
                             E("2h", TagAlpha[sh.a] \o "#" \o TagAlpha[sh.b] \o TagAlpha[c] \o TagAlpha[d] \o "#a")>>)>>),
                 NowOf(T0, 720), TagRuns)
            : c \in 1..NA, d \in {dd \in 1..NA : Pick(dd + sh.a + sh.b, 7, 1)}}

(***************************************************************************)
(* style: the same commands under every colour scheme                       *)
(***************************************************************************)
Schemes == <<[cfg |-> "colour_scheme = dark\n", env |-> <<>>, flag |-> <<>>],
             [cfg |-> "colour_scheme = light\n", env |-> <<>>, flag |-> <<>>],
             [cfg |-> "colour_scheme = basic\n", env |-> <<>>, flag |-> <<>>],
             [cfg |-> "colour_scheme = no_colour\n", env |-> <<>>, flag |-> <<>>],
             [cfg |-> "", env |-> <<"NO_COLOR">>, flag |-> <<>>],
             [cfg |-> "colour_scheme = dark\n", env |-> <<>>, flag |-> <<"--no-style">>]>>
StyleCmds == <<<<"print">>, <<"print", "--with-totals">>, <<"total", "--diff">>, <<"report", "--diff">>,
               <<"report", "--aggregate", "week", "--fill">>, <<"report", "--aggregate", "month", "--chart">>,
               <<"tags", "--values", "--count">>, <<"today", "--diff">>, <<"today", "--diff", "--now">>,
               (* flags that change the rendering of values, combined with every way of switching styling off *)
               <<"total", "--diff", "--decimal">>, <<"report", "--aggregate", "week", "--decimal", "--diff">>,
               <<"today", "--diff", "--decimal">>, <<"tags", "--decimal", "--count">>,
               <<"report", "--fill", "--chart", "--diff">>>>
StyleRuns ==
    LET mk(ci, si) == [id |-> "style:" \o NatStr(ci) \o ":" \o NatStr(si),
                       args |-> StyleCmds[ci] \o Schemes[si].flag \o <<"--no-warn">>,
                       cfg |-> Schemes[si].cfg,
                       env |-> IF Schemes[si].env = <<>> THEN ("X" :> "") ELSE ("NO_COLOR" :> "1"),
                       q |-> NoQuery, now |-> FALSE]
    IN  [n \in 1..(Len(StyleCmds) * 6) |-> mk(((n - 1) \div 6) + 1, ((n - 1) % 6) + 1)]
StyleFiles == <<
    <<RecOf(T0, "8h!", <<"Work #day=\"a b\" ünïcödé 日本語">>, <<E("8:00 - 12:30", "#proj=x coding"), E("-45m", "#lunch"), E("13:15 - ?", "#proj=y")>>),
      RecOf(T0 - 1, "", <<>>, <<E("120h", "#日本 big"), E("-1h", "")>>)>>,
    <<RecOf(T0 - 40, "-2h!", <<"\\033[31m %s %d #esc">>, <<E("1m", "100% #ä=ö"), E("<23:00 - 0:30>", "#Σmega")>>)>>,
    <<RecOf(T0, "", <<>>, <<>>)>>,
    <<RecOf(T0, "7h!", <<"stand-up with the #team", "then #gym">>,
            <<E("9:00 - 9:15", "#ticket=2024"), E("1h", "review #k=38 #m"), E("-15m", "#pause=5;1m"), E("10:00 - ?", "#z=[0m")>>)>>,
    (* days without records in between (rows filled in by --fill) *)
    <<RecOf(T0 - 4, "", <<>>, <<E("3h", "")>>), RecOf(T0 - 1, "8h!", <<>>, <<E("12h30m", "#long")>>), RecOf(T0 + 2, "", <<>>, <<E("-1h", "")>>)>>,
    (* entries whose text starts on the line after the value *)
    <<RecOf(T0, "", <<"#r">>, <<EM("8:00 - 9:00", "", <<"continued #x on the next line">>), EM("1h", "", <<"also", "three #lines">>), E("2h", "")>>)>>,
    (* tables of several hundred rows (more than 8 KiB of output) *)
    [i \in 1..400 |-> RecOf(T0 - 401 + i, IF i % 50 = 0 THEN "8h!" ELSE "", <<>>, <<E("1h", "#t" \o NatStr(i % 90))>>)]
>>
StyleShards == {[k |-> "style", a |-> i, b |-> 0] : i \in 1..Len(StyleFiles)}
StyleCases(sh) == {CaseOf(FileText(StyleFiles[sh.a]), NowOf(T0, 840), StyleRuns)}

Shards == CASE Mode = "total" -> TotalShards [] Mode = "report" -> ReportShards [] Mode = "filter" -> FilterShards
            [] Mode = "tags" -> TagShards [] Mode = "style" -> StyleShards [] Mode = "shortcuts" -> ShortcutShards
            [] Mode = "sort" -> SortShards
CasesOf(sh) == CASE sh.k = "total" -> TotalCases(sh) [] sh.k = "report" -> ReportCases(sh) [] sh.k = "filter" -> FilterCases(sh)
                 [] sh.k = "tags" -> TagCases(sh) [] sh.k = "style" -> StyleCases(sh) [] sh.k = "shortcuts" -> ShortcutCases(sh)
                 [] sh.k = "sort" -> SortCases(sh)

Init == shard \in Shards /\ case = None
Next == /\ case = None
        /\ \E c \in CasesOf(shard) : case' = c
        /\ UNCHANGED shard

Emit == Serialize(ToJson(case') \o "\n", Out,
                  [format |-> "TXT", charset |-> "UTF-8",
                   openOptions |-> <<"WRITE", "CREATE", "APPEND">>]).exitValue = 0

(***************************************************************************)
(* Laws of the evaluation model, checked on every generated file            *)
(***************************************************************************)
IsCase == case.kind = "eval"
Laws ==
    IsCase =>
        LET PD == ParseDoc(case.text)  R == DocData(PD) IN
        /\ PD.status = "Conforming"
        /\ Diff(R) + ShouldSum(R) = Total(R)
        (* the total of a file is the sum of the totals of its halves: records stay separate *)
        /\ \A k \in 0..Len(R) : Total(SubSeq(R, 1, k)) + Total(SubSeq(R, k + 1, Len(R))) = Total(R)
        (* filtering by two clauses is intersecting *)
        /\ Mode = "filter" =>
              \A i \in 1..Len(case.runs) :
                  LET q == case.runs[i].q
                      dOnly == [NoQuery EXCEPT !.at = q.at, !.since = q.since, !.until = q.until]
                      rest == [q EXCEPT !.at = -1, !.since = -1, !.until = -1]
                  IN  Filter(R, q) = Filter(Filter(R, dOnly), rest)
        (* report buckets partition the records *)
        /\ Mode = "report" =>
              \A kind \in (IF shard.a = 0 THEN {"quarter", "year"} ELSE {"day", "week", "month", "quarter", "year"}) :
                  LET bs == Buckets(R, kind, FALSE) IN
                  /\ SumSeq([k \in 1..Len(R) |-> Cardinality({b \in bs : BucketOf(kind, R[k].date.ord) = b})], 1) = Len(R)
                  /\ \A b \in Buckets(R, kind, TRUE) \ bs : RowOf(R, kind, b).empty
=============================================================================
