INIT Init
NEXT Next
ACTION_CONSTRAINT Emit
INVARIANTS NormIdempotent DbWellFormed
PROPERTIES StepLaw
CHECK_DEADLOCK FALSE
