--------------------------- MODULE Trace_Bookmarks ---------------------------
(***************************************************************************)
(* C19, code -> spec: a recorded history of bookmark commands (with the     *)
(* database file after every step, decoded independently) is accepted iff   *)
(* every step agrees with the map model KBookmarks.                         *)
(***************************************************************************)
EXTENDS KBookmarks, Json, IOUtils

VARIABLES l, sh
Trace == ndJsonDeserialize(IOEnv.KV_TRACE)
N     == Len(Trace)
NSh   == 64
Init == l = 0 /\ sh = 0
Next == \/ /\ l = 0 /\ sh = 0
           /\ sh' \in 1..NSh /\ l' = 0
        \/ /\ l = 0 /\ sh > 0 /\ sh <= N
           /\ l' \in {sh + NSh * k : k \in 0..((N - sh) \div NSh)}
           /\ sh' = sh

RuleNames == {"C19.NoPanic", "C19.Status", "C19.Database", "C19.List", "C19.Info", "C19.Resolve"}

RECURSIVE DbAt(_, _)
(* the model's database after the first k steps *)
DbAt(cmds, k) == IF k = 0 THEN EmptyDb ELSE After(DbAt(cmds, k - 1), cmds[k].cmd)

(* the decoded database file as a map *)
FileDb(entries) == [n \in {entries[i].name : i \in 1..Len(entries)} |->
                      (CHOOSE i \in 1..Len(entries) : entries[i].name = n)]
OutLines(s) == LET ls == SplitLines(s) IN [i \in 1..Len(ls) |-> ls[i].text]

StepOK(r, cmds, steps, k, W) ==
    LET c == cmds[k].cmd  s == steps[k]
        before == DbAt(cmds, k - 1)
        after == DbAt(cmds, k)
    IN
    CASE r = "C19.Status" -> (s.code = 0) = Succeeds(before, c)
      [] r = "C19.Database" ->
            /\ s.db_ok
            /\ Len(s.db) = Cardinality(DOMAIN after)
            /\ {s.db[i].name : i \in 1..Len(s.db)} = DOMAIN after
            /\ \A i \in 1..Len(s.db) : s.db[i].name \in DOMAIN after => s.db[i].path = W \o "/" \o after[s.db[i].name]
            /\ \A i \in 1..(Len(s.db) - 1) : Rank(s.db[i].name) < Rank(s.db[i + 1].name)
      [] r = "C19.List" -> c.op = "list" =>
            IF DOMAIN before = {} THEN s.code = 0
            ELSE OutLines(s.out) = Listing(before, W)
      [] r = "C19.Info" -> c.op = "info" /\ Has(before, NormName(c.name)) =>
            OutLines(s.out) = <<W \o "/" \o before[NormName(c.name)]>>
      [] r = "C19.Resolve" ->
            /\ c.op \in {"resolve", "resolveblank"} /\ Has(before, NormName(c.name)) =>
                  s.code = 0 /\ OutLines(s.out)[1] = "Total: " \o NatStr(FileMinutes(before[NormName(c.name)]))
            /\ c.op = "resolvemix" /\ Has(before, NormName(c.name)) =>
                  s.code = 0 /\ OutLines(s.out)[1] = "Total: " \o NatStr(FileMinutes(Files[1]) + FileMinutes(before[NormName(c.name)]))
            /\ c.op = "resolvemix2" /\ Has(before, NormName(c.name)) =>
                  s.code = 0 /\ OutLines(s.out)[1] = "Total: " \o NatStr(FileMinutes(Files[2]) + FileMinutes(before[NormName(c.name)]))
            /\ c.op = "resolvedefault" /\ Has(before, "default") =>
                  s.code = 0 /\ OutLines(s.out)[1] = "Total: " \o NatStr(FileMinutes(before["default"]))

Holds(r, ev) ==
    IF r = "C19.NoPanic" THEN ev.panic = ""
    ELSE ev.panic = "" =>
         /\ Len(ev.obs.steps) = Len(ev.case.cmds)
         /\ \A k \in 1..Len(ev.case.cmds) : StepOK(r, ev.case.cmds, ev.obs.steps, k, ev.obs.workdir)

Failed(ev) == {r \in RuleNames : ~Holds(r, ev)}
Accept == l > 0 => LET v == Failed(Trace[l]) IN v = {} \/ (PrintT(<<"VIOL", l, v>>) /\ FALSE)
=============================================================================
