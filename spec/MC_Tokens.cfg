INIT Init
NEXT Next
ACTION_CONSTRAINT Emit
INVARIANTS SpecTotal
CHECK_DEADLOCK FALSE
