---------------------------- MODULE MC_Calendar ----------------------------
(***************************************************************************)
(* C15: TLC checks the calendar laws of KCalendar on every date of every    *)
(* explored year (one state per year) and emits one replay case per year    *)
(* plus the cases for the global report-bucket classes.                     *)
(***************************************************************************)
EXTENDS KCalendar, Json, IOUtils

VARIABLES shard, case
vars == <<shard, case>>

Out  == IOEnv.KV_OUT
Tier == IOEnv.KV_TIER
Seed == atoi(IOEnv.KV_SEED)
Full == Tier = "thorough"
None == [kind |-> "none"]

YearPick(y) == Full \/ y \in {0, 1, 3, 4, 5, 99, 100, 399, 400, 1582, 1600, 1899, 1900, 1970, 1999, 2000, 2004,
                               2009, 2015, 2020, 2023, 2024, 2026, 2032, 2100, 9995, 9996, 9997, 9998, 9999}
                    \/ (y + Seed * 13) % 40 = 0

(* the window of years over which report buckets are compared globally *)
ClassFrom == IF Full THEN 0 ELSE (Seed * 977) % 9500
ClassTo   == IF Full THEN 9999 ELSE ClassFrom + 499
NSlices   == IF Full THEN 64 ELSE 8

(* The calendar is the proleptic Gregorian one whatever time zone the process runs in: the zone is an  *)
(* environment parameter of every case that no result may depend on.  The zones below start daylight *)
(* saving time at midnight (so a local midnight does not exist once a year) or skipped a whole day.  *)
Zones == <<"UTC", "America/Santiago", "Africa/Cairo", "America/Havana", "America/Sao_Paulo", "Asia/Beirut",
           "Pacific/Apia", "Asia/Tehran", "America/Asuncion">>
ZonesOf(y) == IF y \in 1990..2030 /\ (Full \/ (y + Seed) % 4 = 0) THEN {Zones[i] : i \in 1..Len(Zones)}
              ELSE {"UTC", Zones[((y + Seed) % (Len(Zones) - 1)) + 2]}

Shards == {[k |-> "years", n |-> c] : c \in 0..99} \cup {[k |-> "classes", n |-> 0]}

CasesOf(sh) ==
    IF sh.k = "years"
    THEN UNION {{[kind |-> "cal_year", year |-> sh.n * 100 + y, tz |-> z] : z \in ZonesOf(sh.n * 100 + y)}
                    : y \in {yy \in 0..99 : YearPick(sh.n * 100 + yy)}}
    ELSE {[kind |-> "hash_classes", from |-> ClassFrom, to |-> ClassTo, k |-> k, slice |-> s, of |-> NSlices]
            : k \in {"week", "month", "quarter", "year"}, s \in 1..NSlices}
         \cup {[kind |-> "hash_classes", from |-> ClassFrom, to |-> ClassTo, k |-> "day", slice |-> 1, of |-> 1]}

Init == shard \in Shards /\ case = None
Next == /\ case = None
        /\ \E c \in CasesOf(shard) : case' = c
        /\ UNCHANGED shard

Emit == Serialize(ToJson(case') \o "\n", Out,
                  [format |-> "TXT", charset |-> "UTF-8",
                   openOptions |-> <<"WRITE", "CREATE", "APPEND">>]).exitValue = 0

(***************************************************************************)
(* Calendar laws, for every date of the year in `case`.                     *)
(***************************************************************************)
DaysOfYear(y) == DaysBeforeYear(y) .. (DaysBeforeYear(y) + (IF IsLeap(y) THEN 365 ELSE 364))
IsYear == case.kind = "cal_year"
Kinds == {"week", "month", "quarter", "year"}

CivilBijection ==
    IsYear => \A o \in DaysOfYear(case.year) :
        LET c == Civil(o) IN c.y = case.year /\ ValidDate(c.y, c.m, c.d) /\ Ord(c.y, c.m, c.d) = o
WeekdayCycle ==
    IsYear => \A o \in DaysOfYear(case.year) : o < MaxOrd => Weekday(o + 1) = (Weekday(o) % 7) + 1
PeriodContains ==
    IsYear => \A o \in DaysOfYear(case.year) : \A k \in Kinds :
        LET p == PeriodOf(k, o) IN p.since <= o /\ o <= p.until
PeriodShape ==
    IsYear => \A o \in DaysOfYear(case.year) :
        /\ LET p == WeekOf(o) IN p.until = p.since + 6 /\ (p.since >= 0 => Weekday(p.since) = 1)
        /\ LET p == MonthOf(o) IN Civil(p.since).d = 1 /\ Civil(p.since).m = Civil(o).m
                                  /\ (p.until < MaxOrd => Civil(p.until + 1).d = 1)
        /\ LET p == QuarterOf(o) IN Civil(p.since).d = 1 /\ Civil(p.since).m \in {1, 4, 7, 10}
                                    /\ Quarter(Civil(p.since).m) = Quarter(Civil(o).m)
                                    /\ p.until - p.since \in 89..91
        /\ LET p == YearOf(o) IN Civil(p.since).m = 1 /\ Civil(p.since).d = 1
                                 /\ Civil(p.until).m = 12 /\ Civil(p.until).d = 31
PeriodsTile ==      \* the next period starts the day after this one ends; the previous one ends the day before
    IsYear => \A o \in DaysOfYear(case.year) : \A k \in Kinds :
        LET p == PeriodOf(k, o) IN
        /\ p.until < MaxOrd => PeriodOf(k, p.until + 1).since = p.until + 1
        /\ p.since > 0 /\ (k # "week" \/ p.since >= 7) => PreviousOf(k, o).until + 1 = p.since
        /\ p.since >= 0 => PeriodOf(k, p.since) = p
        /\ p.until <= MaxOrd => PeriodOf(k, p.until) = p
IsoWeekLaws ==      \* Thursday rule agrees with the January-4th rule
    IsYear => \A o \in DaysOfYear(case.year) :
        LET wy == IsoWeekYear(o)  wk == IsoWeek(o) IN
        wy \in 0..9999 => /\ wk \in 1..WeeksInYear(wy)
                          /\ WeekStart(wy, wk) = WeekOf(o).since
                          /\ wy \in {case.year - 1, case.year, case.year + 1}
=============================================================================
