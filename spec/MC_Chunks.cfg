INIT Init
NEXT Next
ACTION_CONSTRAINT Emit
INVARIANT Equivalence
CHECK_DEADLOCK FALSE
