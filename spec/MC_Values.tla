----------------------------- MODULE MC_Values -----------------------------
(***************************************************************************)
(* C16: bounded instance that (1) lets TLC enumerate the literal domains    *)
(* named in the property, (2) checks the specification's own round-trip     *)
(* laws on every enumerated value and (3) emits one case per transition     *)
(* for replay into the real code (IOEnv.KV_OUT).                            *)
(***************************************************************************)
EXTENDS KValues, Json, IOUtils

VARIABLES shard, case
vars == <<shard, case>>

Out  == IOEnv.KV_OUT
Tier == IOEnv.KV_TIER
Seed == atoi(IOEnv.KV_SEED)
Full == Tier = "thorough"

None == [kind |-> "none"]

D1 == {DigitStr(a) : a \in 0..9}
D2 == {DigitStr(a) \o DigitStr(b) : a, b \in 0..9}
HourStrs == D1 \cup D2
AmPm == <<"", "am", "pm">>

ExtraTimes == {"", ":", "8", "8:", ":00", "8:0", "8:000", "008:00", "8.00", "8:00 ", " 8:00", "8 :00",
               "8:00AM", "8:00Am", "8:00a", "8:00 am", "<<8:00", "8:00>>", ">8:00", "8:00<", "<8:00>",
               "-8:00", "+8:00", "8:00am>", "<8:00pm", "<12:00am", "12:00am>", "24:00", "<24:00", "24:00>",
               "24:01", "24:00am", "0:00am", "13:00pm", "12:60pm", "23:59>", "<0:00", "٨:00", "8:٠0", "8:00\n"}
ExtraDurs == {"", "h", "m", "1", "1hm", "1h2", "1m2h", "--1h", "+-1h", "1H", "1M", "1h 2m", "01h02m", "1h60m",
              "60m", "1h59m", "00h00m", "-0h", "+0h", "+0m", "-0m", "0m", "0h0m", "-0h0m", "+0h0m", "9999999h",
              "9999999h59m",
              "1.5h", " 1h", "1h ", "1h\n", "+", "-", "h1m", "1h1h", "1m1m", "-1h-1m", "1h+1m", "١h"}
ExtraDates == {"", "2020-1-1", "20-01-01", "02020-01-01", "2020-01-011", "2020-01-01 ", " 2020-01-01",
               "2020.01.01", "2020_01_01", "2020-01/01", "2020/01-01", "2020--01-01", "2020-0a-01",
               "abcd-01-01", "2020-W01", "2020-01", "20200101", "٢٠٢٠-01-01", "2020-01-01\n", "2020‐01‐01",
               "0000-01-01", "0000-00-00", "0000-02-29", "0000-02-30", "9999-12-31", "9999-12-32",
               "1900-02-29", "2000-02-29", "2100-02-29", "2400-02-29", "2023-02-29", "2024-02-29",
               "2020/02/29", "2021/02/29"}

(* which offsets get a full row in the quick tier: boundaries plus a seed-rotated 1-in-41 sample *)
RowPick(off) == Full \/ off \in {-1440, -1439, -1, 0, 1, 719, 720, 721, 1439, 1440, 1441, 2878, 2879}
                     \/ (off + 1440 + Seed) % 41 = 0
YearPick(y) == Full \/ y \in {0, 1, 4, 99, 100, 399, 400, 1582, 1899, 1900, 1999, 2000, 2023, 2024, 2100, 9996, 9999}
                    \/ (y + Seed * 7) % 40 = 0

Shards ==
    {[k |-> "time", a |-> h, n |-> i] : h \in HourStrs, i \in 1..3}
    \cup {[k |-> "timefmt", a |-> "", n |-> h] : h \in -24..47}
    \cup {[k |-> "range", a |-> "", n |-> h] : h \in -24..47}
    \cup {[k |-> "plus", a |-> "", n |-> h] : h \in -24..47}
    \cup {[k |-> "date", a |-> "", n |-> c] : c \in 0..99}
    \cup {[k |-> "dur", a |-> sg, n |-> h] : sg \in {"", "+", "-"}, h \in 0..120}
    \cup {[k |-> "extra", a |-> "", n |-> i] : i \in 1..3}

TimeCase(s) == [kind |-> "time", s |-> s, exp |-> ParseTime(s)]
DurCase(s)  == [kind |-> "dur", s |-> s,
                exp |-> LET p == ParseDuration(s) IN
                        [ok |-> p.ok, big |-> p.big, mins |-> p.mins,
                         str |-> IF p.ok THEN FormatDuration(p) ELSE ""]]
DateCase(s) == [kind |-> "date", s |-> s,
                exp |-> LET p == ParseDate(s) IN
                        [ok |-> p.ok, ord |-> p.ord, dashes |-> p.dashes,
                         str |-> IF p.ok THEN FormatDate(p.ord, p.dashes) ELSE "",
                         wd |-> IF p.ok THEN Weekday(p.ord) ELSE 0]]

CasesOf(sh) ==
    CASE sh.k = "time" ->
            {TimeCase(pre \o sh.a \o ":" \o m \o AmPm[sh.n] \o suf) : pre \in {"", "<"}, m \in D2, suf \in {"", ">"}}
      [] sh.k = "timefmt" ->
            {[kind |-> "timefmt", off |-> sh.n * 60 + m, h12 |-> b, s |-> FormatTime(sh.n * 60 + m, b)]
                : m \in 0..59, b \in BOOLEAN}
      [] sh.k = "range" ->
            {[kind |-> "range_row", off |-> sh.n * 60 + m] : m \in {mm \in 0..59 : RowPick(sh.n * 60 + mm)}}
      [] sh.k = "plus" ->
            {[kind |-> "plus_row", off |-> sh.n * 60 + m, h12 |-> b, s |-> FormatTime(sh.n * 60 + m, b)]
                : m \in {mm \in 0..59 : RowPick(sh.n * 60 + mm)}, b \in BOOLEAN}
      [] sh.k = "date" ->
            {[kind |-> "date_year", year |-> sh.n * 100 + y] : y \in {yy \in 0..99 : YearPick(sh.n * 100 + yy)}}
      [] sh.k = "dur" ->
            {DurCase(sh.a \o NatStr(sh.n) \o "h" \o NatStr(m) \o "m") : m \in 0..130}
            \cup {DurCase(sh.a \o NatStr(sh.n) \o "h")}
            \cup (IF sh.n = 0 THEN {DurCase(sh.a \o NatStr(m) \o "m") : m \in 0..130}
                  ELSE IF sh.n <= 10 THEN {DurCase(sh.a \o "0" \o NatStr(sh.n) \o "h0" \o NatStr(m) \o "m") : m \in 0..9}
                  ELSE {})
      [] sh.k = "extra" ->
            IF sh.n = 1 THEN {TimeCase(s) : s \in ExtraTimes}
            ELSE IF sh.n = 2 THEN {DurCase(s) : s \in ExtraDurs}
            ELSE {DateCase(s) : s \in ExtraDates}

Init == shard \in Shards /\ case = None
Next == /\ case = None
        /\ \E c \in CasesOf(shard) : case' = c
        /\ UNCHANGED shard
Spec == Init /\ [][Next]_vars

Emit == Serialize(ToJson(case') \o "\n", Out,
                  [format |-> "TXT", charset |-> "UTF-8",
                   openOptions |-> <<"WRITE", "CREATE", "APPEND">>]).exitValue = 0

(***************************************************************************)
(* Spec-level laws, checked by TLC in every state.                          *)
(***************************************************************************)
TimeRoundTrip ==
    case.kind = "time" /\ case.exp.ok =>
        /\ TimeOffOK(case.exp.off)
        /\ ParseTime(FormatTime(case.exp.off, case.exp.h12)) = case.exp
TimeFmtRoundTrip ==
    case.kind = "timefmt" => ParseTime(case.s) = [ok |-> TRUE, off |-> case.off, h12 |-> case.h12]
(* the equalities the specification spells out *)
TimeEqualities ==
    /\ ParseTime("24:00").off = ParseTime("0:00>").off
    /\ ParseTime("<24:00").off = ParseTime("0:00").off
    /\ ParseTime("12:00am").off = ParseTime("0:00").off
    /\ ParseTime("12:00pm").off = ParseTime("12:00").off
    /\ ~ParseTime("24:00>").ok
    /\ ParseDuration("90m").mins = ParseDuration("1h30m").mins
DurRoundTrip ==
    case.kind = "dur" /\ case.exp.ok =>
        LET p == ParseDuration(case.s)  q == ParseDuration(case.exp.str)
        IN  q.ok /\ q.mins = p.mins /\ q.plus = p.plus /\ q.zsign = p.zsign
            /\ FormatDuration(q) = case.exp.str
DateRoundTrip ==
    case.kind = "date" /\ case.exp.ok => ParseDate(case.exp.str).ord = case.exp.ord /\ case.exp.str = case.s
YearRoundTrip ==
    case.kind = "date_year" =>
        \A m \in 1..12 : \A d \in 1..DaysInMonth(case.year, m) :
            Civil(Ord(case.year, m, d)) = [y |-> case.year, m |-> m, d |-> d]
PlusInterval ==    \* the set of durations for which Plus is defined is one interval
    case.kind = "plus_row" =>
        {d \in -2880..2880 : TimePlusDefined(case.off, d)}
            = Max(-2880, MinOff - case.off)..Min(2880, MaxOff - case.off)
=============================================================================
