----------------------------- MODULE KReconcile -----------------------------
(***************************************************************************)
(* Text-level predicates for the mutating commands: what a command may do   *)
(* to the lines of a file (C03), what it must leave behind (C05) and which  *)
(* style its additions must have (C11).  These are the loose, property-     *)
(* level predicates of DESIGN 3.5 / Appendix C: they grant the latitude the *)
(* properties grant and nothing more.  P, Q: lines [text, eol] before and   *)
(* after; PP = ParseDoc of the text before.                                 *)
(***************************************************************************)
EXTENDS KCli

SameButEol(p, q) == q.text = p.text /\ (q.eol = p.eol \/ p.eol = "")
BlankOnly(P) == \A i \in 1..Len(P) : BlankST(P[i].text)

(* Q is P with m lines inserted after line k; a last line without ending may gain one *)
Inserted(P, Q, k, m) ==
    /\ Len(Q) = Len(P) + m
    /\ \A i \in 1..k : IF i = k /\ k = Len(P) /\ m > 0 THEN SameButEol(P[i], Q[i]) ELSE Q[i] = P[i]
    /\ \A i \in (k + 1)..Len(P) : Q[i + m] = P[i]

InsPoints(P, Q) == {k \in 0..Len(P) : Inserted(P, Q, k, Len(Q) - Len(P))}

(* track, start, create, pause: one contiguous block is added, nothing else changes *)
FrameAppend(P, Q) ==
    \/ BlankOnly(P)
    \/ Len(Q) > Len(P) /\ InsPoints(P, Q) # {}

(* the token at columns from..to of p is replaced by one non-blank token; what followed it is  *)
(* kept, and (mayAppend) text may be appended to the line                                       *)
TokenReplaced(p, q, from, to, mayAppend, gain) ==
    LET te == FindIn(q.text, from, SpTab)         \* end of the new token (exclusive)
        restP == Drop(p.text, to)
        restQ == Drop(q.text, te - 1)
    IN  /\ Len(q.text) >= from
        /\ Take(q.text, from - 1) = Take(p.text, from - 1)
        /\ te > from
        /\ IF mayAppend THEN StartsWith(restQ, restP) ELSE restQ = restP
        /\ (q.eol = p.eol \/ (gain /\ p.eol = ""))
AppendedOnly(p, q, gain) == StartsWith(q.text, p.text) /\ (q.eol = p.eol \/ (gain /\ p.eol = ""))

(* stop / switch / pause --extend: line f gets its token [from..to] replaced; (stop) text may be      *)
(* appended to the entry's last line la and lines may be added right after it; (switch) one block    *)
(* of lines is added at or after la; nothing else changes                                            *)
FrameReplace(P, Q, f, la, from, to, appendOK, kmin, kmax) ==
    LET m == Len(Q) - Len(P) IN
    /\ m >= 0
    /\ \E k \in kmin..kmax :
          LET gainAt(i) == i = k /\ k = Len(P) /\ m > 0
              Rel(i, p, q) == IF i = f THEN TokenReplaced(p, q, from, to, appendOK /\ f = la, gainAt(i))
                              ELSE IF i = la /\ appendOK THEN AppendedOnly(p, q, gainAt(i))
                              ELSE IF gainAt(i) THEN SameButEol(p, q) ELSE q = p
          IN  /\ \A i \in 1..k : Rel(i, P[i], Q[i])
              /\ \A i \in (k + 1)..Len(P) : Rel(i, P[i], Q[i + m])

(***************************************************************************)
(* Style (C11)                                                              *)
(***************************************************************************)
RecEntries(PP, k) == PP.recs[k].entries
TimedEntries(PP, k) == {i \in 1..Len(RecEntries(PP, k)) : RecEntries(PP, k)[i].kind \in {"range", "open"}}

ExEol(PP, k)    == {PP.lines[i].eol : i \in PP.blocks[k].sigFirst..PP.blocks[k].sigLast} \ {""}
ExIndent(PP, k) == IF PP.recs[k].indent = "" THEN {} ELSE {PP.recs[k].indent}
ExDashes(PP, k) == {PP.recs[k].date.dashes}
ExClock(PP, k)  == {RecEntries(PP, k)[i].sh12 : i \in TimedEntries(PP, k)}
                   \cup {RecEntries(PP, k)[i].eh12 : i \in {j \in TimedEntries(PP, k) : RecEntries(PP, k)[j].kind = "range"}}
ExSpaced(PP, k) == {RecEntries(PP, k)[i].spaced : i \in TimedEntries(PP, k)}
ExNq(PP, k)     == {RecEntries(PP, k)[i].nq : i \in {j \in TimedEntries(PP, k) : RecEntries(PP, k)[j].kind = "open"}}

(* own style if the target record exhibits one, else what the other records exhibit, else the default *)
Allowed(Ex(_, _), PP, t, default) ==
    LET own == IF t = 0 THEN {} ELSE Ex(PP, t)
        others == UNION {Ex(PP, k) : k \in (1..Len(PP.recs)) \ {t}}
    IN  IF own # {} THEN own ELSE IF others # {} THEN others ELSE {default}

LeadBlank(s) == Take(s, SkipIn(s, 1, SpTab) - 1)

(* the lines added for one entry: first line indented once, the others twice, same ending policy *)
EntryBlockStyled(A, inds, eols) ==
    /\ A # <<>>
    /\ \A j \in 1..Len(A) : A[j].eol \in eols
    /\ \E ind \in inds :
          /\ StartsWith(A[1].text, ind) /\ Len(A[1].text) > Len(ind) /\ ~IsSpaceOrTab(Ch(A[1].text, Len(ind) + 1))
          /\ \A j \in 2..Len(A) : StartsWith(A[j].text, ind \o ind)

(* a block that holds a new record: optional blank lines around, an unindented headline, entry lines *)
NewRecordStyled(A, inds, eols) ==
    LET nb == {j \in 1..Len(A) : A[j].text # ""}
    IN  /\ nb # {}
        /\ \A j \in 1..Len(A) : A[j].eol \in eols
        /\ LET h == CHOOSE j \in nb : \A j2 \in nb : j <= j2
               entryLines == {j \in nb : j > h /\ IsSpaceOrTab(Ch(A[j].text, 1))}
           IN  /\ ~IsSpaceOrTab(Ch(A[h].text, 1))
               /\ \A j \in 1..Len(A) : (j < h \/ ~(j \in nb)) => A[j].text = ""
               /\ entryLines = {} \/ \E ind \in inds :
                     LET f == CHOOSE j \in entryLines : \A j2 \in entryLines : j <= j2 IN
                     /\ LeadBlank(A[f].text) = ind
                     /\ \A j \in entryLines : j = f \/ StartsWith(A[j].text, ind \o ind)

HeadlineOf(A) == LET nb == {j \in 1..Len(A) : A[j].text # ""} IN A[CHOOSE j \in nb : \A j2 \in nb : j <= j2].text
(***************************************************************************)
(* The predicates per command                                               *)
(***************************************************************************)
(* where the entry a command rewrites sits in the file before *)
Loc(PP, t, i) == LET b == PP.blocks[t]  e == PP.recs[t].entries[i] IN
                 [f |-> b.sigFirst + e.first - 1, la |-> b.sigFirst + e.last - 1, e |-> e]

FrameOK(cmd, M, PP, P, Q) ==
    CASE cmd.op \in {"track", "start", "create"} -> FrameAppend(P, Q)
      [] cmd.op = "pause" /\ ~cmd.extend -> FrameAppend(P, Q)
      [] cmd.op = "pause" /\ cmd.extend ->
            LET lc == Loc(PP, M.t, M.i) IN
            FrameReplace(P, Q, lc.f, lc.f, lc.e.valFrom, lc.e.valTo, FALSE, Len(P), Len(P)) /\ Len(Q) = Len(P)
      [] cmd.op = "stop" ->
            LET lc == Loc(PP, M.t, M.i) IN
            FrameReplace(P, Q, lc.f, lc.la, lc.e.qFrom, lc.e.qTo, TRUE, lc.la, lc.la)
      [] cmd.op = "switch" ->
            LET lc == Loc(PP, M.t, M.i) IN
            FrameReplace(P, Q, lc.f, lc.la, lc.e.qFrom, lc.e.qTo, FALSE, lc.la, Len(P)) /\ Len(Q) > Len(P)

(* the candidate blocks of added lines: when an added line equals a neighbouring line the   *)
(* decomposition is not unique, and a style predicate holds if it holds for some candidate *)
AddedBlocks(P, Q) == {SubSeq(Q, k + 1, k + Len(Q) - Len(P)) : k \in InsPoints(P, Q)}
(* for stop / switch: the lines added after the rewritten entry *)
AddedAfterReplace(P, Q, lc, kmax) ==
    LET m == Len(Q) - Len(P)
        ks == {k \in lc.la..kmax :
                 /\ \A i \in (lc.la + 1)..k : Q[i] = P[i] \/ SameButEol(P[i], Q[i])
                 /\ \A i \in (k + 1)..Len(P) : Q[i + m] = P[i]}
    IN  {SubSeq(Q, k + 1, k + m) : k \in ks}

ClockAllowed(cmd, cfg, PP, t) ==
    IF cmd.time # "" THEN {ParseTime(cmd.time).h12}
    ELSE IF cfg.timeconv = "24h" THEN {FALSE}
    ELSE IF cfg.timeconv = "12h" THEN {TRUE}
    ELSE Allowed(ExClock, PP, t, FALSE)
DashesAllowed(cmd, cfg, PP) ==
    IF cmd.dsel = "date" THEN {ParseDate(cmd.date).dashes}
    ELSE IF cfg.datefmt = "YYYY-MM-DD" THEN {TRUE}
    ELSE IF cfg.datefmt = "YYYY/MM/DD" THEN {FALSE}
    ELSE Allowed(ExDashes, PP, 0, TRUE)

OpenNotationOK(line, cmd, cfg, PP, t) ==
    LET v == ParseValue(Drop(line, Len(LeadBlank(line)))) IN
    /\ v.ok /\ v.kind = "open"
    /\ v.sh12 \in ClockAllowed(cmd, cfg, PP, t)
    /\ v.spaced \in Allowed(ExSpaced, PP, t, TRUE)
    /\ v.nq \in Allowed(ExNq, PP, t, 1)
HeadDateOK(A, cmd, cfg, PP) ==
    LET h == HeadlineOf(A)
        d == ParseDate(Take(h, FindIn(h, 1, SpTab) - 1))
    IN  d.ok /\ d.dashes \in DashesAllowed(cmd, cfg, PP)
NonBlank(A) == SelectSeq(A, LAMBDA x : x.text # "")

(* style and notation of what a command added *)
StyleOK(cmd, cfg, M, PP, P, Q) ==
    LET inds(t) == Allowed(ExIndent, PP, t, "    ")
        eols(t) == Allowed(ExEol, PP, t, LF)
        newRec(A) == /\ NewRecordStyled(A, inds(0), eols(0))
                     /\ HeadDateOK(A, cmd, cfg, PP)
                     /\ cmd.op = "start" => Len(NonBlank(A)) >= 2 /\ OpenNotationOK(NonBlank(A)[2].text, cmd, cfg, PP, 0)
        newEntry(A, t) == /\ EntryBlockStyled(A, inds(t), eols(t))
                          /\ cmd.op \in {"start", "switch"} => OpenNotationOK(A[1].text, cmd, cfg, PP, t)
    IN
    CASE cmd.op \in {"track", "start", "create"} \/ (cmd.op = "pause" /\ ~cmd.extend) ->
            IF BlankOnly(P) THEN newRec(Q)
            ELSE \E A \in AddedBlocks(P, Q) : IF M.kind = "create" \/ M.t = 0 THEN newRec(A) ELSE newEntry(A, M.t)
      [] cmd.op = "stop" ->
            LET lc == Loc(PP, M.t, M.i)
                ind == PP.recs[M.t].indent
                q == Q[lc.f].text
                te == FindIn(q, lc.e.qFrom, SpTab)
                tm == ParseTime(Mid(q, lc.e.qFrom, te - 1))
            IN  /\ tm.ok /\ tm.h12 \in ClockAllowed(cmd, cfg, PP, M.t)
                /\ \E A \in AddedAfterReplace(P, Q, lc, lc.la) :
                      \A j \in 1..Len(A) : A[j].eol \in eols(M.t) /\ StartsWith(A[j].text, ind \o ind)
      [] cmd.op = "switch" ->
            LET lc == Loc(PP, M.t, M.i)
                q == Q[lc.f].text
                te == FindIn(q, lc.e.qFrom, SpTab)
                tm == ParseTime(Mid(q, lc.e.qFrom, te - 1))
            IN  /\ tm.ok /\ tm.h12 \in ClockAllowed(cmd, cfg, PP, M.t)
                /\ \E A \in AddedAfterReplace(P, Q, lc, Len(P)) : A # <<>> /\ newEntry(A, M.t)
      [] OTHER -> TRUE

=============================================================================
