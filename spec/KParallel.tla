----------------------------- MODULE KParallel -----------------------------
(***************************************************************************)
(* The concurrent skeleton of the parallel batch parser (C07): N workers    *)
(* compute their batch result and hand it over on an unbuffered channel, a  *)
(* closer closes the channel once all workers are done, the collector       *)
(* stores every received result at the index it carries.  The payload is    *)
(* abstract (the batch index); what is checked is that every interleaving   *)
(* ends with result i at position i, that nothing is sent on a closed       *)
(* channel, and that the collector terminates.                              *)
(*                                                                          *)
(* StoreByArrival = TRUE models the realistic bug "append results in the    *)
(* order of arrival" and must violate ByIndex (non-vacuity witness).        *)
(***************************************************************************)
EXTENDS Integers, Sequences, FiniteSets, TLC

CONSTANTS N, StoreByArrival

Workers == 1..N
None == 0

(* --algorithm parallel {
  variables chan = None,            \* the unbuffered channel: None or the index of the result in transit
            closed = FALSE,
            pending = N,            \* the WaitGroup counter
            all = [i \in Workers |-> None],   \* allResults
            arrived = 0,            \* number of results received so far
            order = <<>>;           \* history: order of arrival

  fair process (worker \in Workers) {
    compute: skip;                                     \* work(batchIndex, batchText)
    send:    await chan = None /\ ~closed;             \* resultChannel <- result  (blocks until received)
             chan := self;
    taken:   await chan # self;
    done:    pending := pending - 1;                   \* defer wg.Done()
  }

  fair process (closer = N + 1) {
    wait:  await pending = 0;                          \* wg.Wait()
    close: closed := TRUE;                             \* close(resultChannel)
  }

  fair process (collector = N + 2) {
    loop: while (TRUE) {
            either { await chan # None;                \* for result := range resultChannel
                     arrived := arrived + 1;
                     order := Append(order, chan);
                     if (StoreByArrival) { all[arrived] := chan } else { all[chan] := chan };
                     chan := None; }
            or     { await closed /\ chan = None; goto fin; }
          };
    fin:  skip;
  }
} *)
\* BEGIN TRANSLATION
VARIABLES pc, chan, closed, pending, all, arrived, order

vars == << pc, chan, closed, pending, all, arrived, order >>

ProcSet == (Workers) \cup {N + 1} \cup {N + 2}

Init == (* Global variables *)
        /\ chan = None
        /\ closed = FALSE
        /\ pending = N
        /\ all = [i \in Workers |-> None]
        /\ arrived = 0
        /\ order = <<>>
        /\ pc = [self \in ProcSet |-> CASE self \in Workers -> "compute"
                                        [] self = N + 1 -> "wait"
                                        [] self = N + 2 -> "loop"]

compute(self) == /\ pc[self] = "compute"
                 /\ TRUE
                 /\ pc' = [pc EXCEPT ![self] = "send"]
                 /\ UNCHANGED << chan, closed, pending, all, arrived, order >>

send(self) == /\ pc[self] = "send"
              /\ chan = None /\ ~closed
              /\ chan' = self
              /\ pc' = [pc EXCEPT ![self] = "taken"]
              /\ UNCHANGED << closed, pending, all, arrived, order >>

taken(self) == /\ pc[self] = "taken"
               /\ chan # self
               /\ pc' = [pc EXCEPT ![self] = "done"]
               /\ UNCHANGED << chan, closed, pending, all, arrived, order >>

done(self) == /\ pc[self] = "done"
              /\ pending' = pending - 1
              /\ pc' = [pc EXCEPT ![self] = "Done"]
              /\ UNCHANGED << chan, closed, all, arrived, order >>

worker(self) == compute(self) \/ send(self) \/ taken(self) \/ done(self)

wait == /\ pc[N + 1] = "wait"
        /\ pending = 0
        /\ pc' = [pc EXCEPT ![N + 1] = "close"]
        /\ UNCHANGED << chan, closed, pending, all, arrived, order >>

close == /\ pc[N + 1] = "close"
         /\ closed' = TRUE
         /\ pc' = [pc EXCEPT ![N + 1] = "Done"]
         /\ UNCHANGED << chan, pending, all, arrived, order >>

closer == wait \/ close

loop == /\ pc[N + 2] = "loop"
        /\ \/ /\ chan # None
              /\ arrived' = arrived + 1
              /\ order' = Append(order, chan)
              /\ IF StoreByArrival
                    THEN /\ all' = [all EXCEPT ![arrived'] = chan]
                    ELSE /\ all' = [all EXCEPT ![chan] = chan]
              /\ chan' = None
              /\ pc' = [pc EXCEPT ![N + 2] = "loop"]
           \/ /\ closed /\ chan = None
              /\ pc' = [pc EXCEPT ![N + 2] = "fin"]
              /\ UNCHANGED <<chan, all, arrived, order>>
        /\ UNCHANGED << closed, pending >>

fin == /\ pc[N + 2] = "fin"
       /\ TRUE
       /\ pc' = [pc EXCEPT ![N + 2] = "Done"]
       /\ UNCHANGED << chan, closed, pending, all, arrived, order >>

collector == loop \/ fin

(* Allow infinite stuttering to prevent deadlock on termination. *)
Terminating == /\ \A self \in ProcSet: pc[self] = "Done"
               /\ UNCHANGED vars

Next == closer \/ collector
           \/ (\E self \in Workers: worker(self))
           \/ Terminating

Spec == /\ Init /\ [][Next]_vars
        /\ \A self \in Workers : WF_vars(worker(self))
        /\ WF_vars(closer)
        /\ WF_vars(collector)

Termination == <>(\A self \in ProcSet: pc[self] = "Done")

\* END TRANSLATION

ByIndex == pc[N + 2] = "Done" => \A i \in Workers : all[i] = i
NoSendAfterClose == closed => \A w \in Workers : pc[w] = "Done"
EachOnce == Len(order) = arrived /\ \A i, j \in 1..Len(order) : i # j => order[i] # order[j]
CollectorTerminates == <>(pc[N + 2] = "Done")
=============================================================================
