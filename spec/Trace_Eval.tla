----------------------------- MODULE Trace_Eval -----------------------------
(***************************************************************************)
(* Code -> spec for the read-only commands (C02, C12, C13, C14, C17 --now,  *)
(* C18, C20): the outputs of total / report / tags / today / print / json   *)
(* recorded from the real CLI are judged against KEval.                     *)
(***************************************************************************)
EXTENDS KWarn, KPrint, Json, IOUtils

VARIABLES l, sh
Trace == ndJsonDeserialize(IOEnv.KV_TRACE)
N     == Len(Trace)
NSh   == 64

RECURSIVE SplitComma(_)
SplitComma(s) == LET i == FindIn(s, 1, {","}) IN
                 IF i > Len(s) THEN {s} ELSE {Take(s, i - 1)} \cup SplitComma(Drop(s, i))
Prefixes == SplitComma(IOEnv.KV_RULES)

Init == l = 0 /\ sh = 0
Next == \/ /\ l = 0 /\ sh = 0
           /\ sh' \in 1..NSh /\ l' = 0
        \/ /\ l = 0 /\ sh > 0 /\ sh <= N
           /\ l' \in {sh + NSh * k : k \in 0..((N - sh) \div NSh)}
           /\ sh' = sh

AllRules == {"C02.NoPanic", "C02.Json", "C02.Total", "C02.TotalHM", "C02.Now", "C02.Pwt",
             "C12.NoPanic", "C12.Rows", "C12.Sums", "C12.Today", "C12.TodayNow", "C12.Pwt",
             "C13.NoPanic", "C13.Select", "C13.Sort", "C13.Print",
             "C14.NoPanic", "C14.JsonTags", "C14.Totals", "C14.Match",
             "C17.Now", "C17.TodayNow",
             "C18.NoPanic", "C18.Strip", "C18.Plain", "C18.Widths",
             "C20.NoPanic", "C20.WellFormed", "C20.Record", "C20.Arithmetic", "C20.Filtered",
             "X.Warn"}
RuleNames == {r \in AllRules : \E p \in Prefixes : StartsWith(r, p)}
(* a selection that matches no rule would make the validation vacuous *)
ASSUME RuleNames # {}

RunsWith(o, prefix) == SelectSeq(o.runs, LAMBDA r : StartsWith(r.id, prefix))
RunById(o, id) == LET s == SelectSeq(o.runs, LAMBDA r : r.id = id) IN s[1]
HasRun(o, id) == \E i \in 1..Len(o.runs) : o.runs[i].id = id

SignedMins(n) == IF n > 0 THEN "+" \o FormatMins(n) ELSE FormatMins(n)

(***************************************************************************)
(* JSON view of the records                                                 *)
(***************************************************************************)
JsonTypeOf(e) == IF e.kind = "dur" THEN "duration" ELSE IF e.kind = "range" THEN "range" ELSE "open_range"
BagEq(s, t) == /\ Len(s) = Len(t)
               /\ \A i \in 1..Len(s) : Cardinality({j \in 1..Len(s) : s[j] = s[i]}) = Cardinality({j \in 1..Len(t) : t[j] = s[i]})

JsonEntryOK(j, e) ==
    /\ j.type = JsonTypeOf(e)
    /\ j.summary = JoinStr(e.summary, "\n")
    /\ j.total_mins = EntryMins(e) /\ j.total = FormatMins(EntryMins(e))
    /\ BagEq(j.tags, TagStrs(TagsOfLines(e.summary)))
    /\ e.kind = "dur" => ~j.has_start /\ ~j.has_end /\ ~j.has_start_mins /\ ~j.has_end_mins
    /\ e.kind = "open" => /\ j.has_start /\ j.has_start_mins /\ ~j.has_end /\ ~j.has_end_mins
                          /\ j.start_mins = e.a /\ j.start = FormatTime(e.a, e.sh12)
    /\ e.kind = "range" => /\ j.has_start /\ j.has_end /\ j.has_start_mins /\ j.has_end_mins
                           /\ j.start_mins = e.a /\ j.end_mins = e.b
                           /\ j.start = FormatTime(e.a, e.sh12) /\ j.end = FormatTime(e.b, e.eh12)
JsonRecordOK(j, r) ==
    /\ j.date = FormatDate(r.date.ord, r.date.dashes)
    /\ j.summary = JoinStr(r.summary, "\n")
    /\ j.total_mins = RecTotal(r) /\ j.total = FormatMins(RecTotal(r))
    /\ j.should_total_mins = r.should
    /\ j.should_total \in {FormatMins(r.should) \o "!"} \cup (IF r.should = 0 THEN {"0m"} ELSE {})
    /\ j.diff_mins = RecTotal(r) - r.should /\ j.diff = SignedMins(RecTotal(r) - r.should)
    /\ BagEq(j.tags, TagStrs(TagsOfLines(r.summary)))
    /\ Len(j.entries) = Len(r.entries)
    /\ \A i \in 1..Len(r.entries) : JsonEntryOK(j.entries[i], r.entries[i])
JsonRecordsOK(js, R) == Len(js) = Len(R) /\ \A k \in 1..Len(R) : JsonRecordOK(js[k], R[k])
JsonArith(js) ==
    \A k \in 1..Len(js) :
        /\ js[k].total_mins = SumSeq([i \in 1..Len(js[k].entries) |-> js[k].entries[i].total_mins], 1)
        /\ js[k].diff_mins = js[k].total_mins - js[k].should_total_mins
        /\ \A i \in 1..Len(js[k].entries) :
              js[k].entries[i].type = "range" => js[k].entries[i].total_mins = js[k].entries[i].end_mins - js[k].entries[i].start_mins

(* the records (with located entries) of the parse, so that notation flags are available *)
Recs(PD) == PD.recs

(***************************************************************************)
(* report rows                                                              *)
(***************************************************************************)
RowLabel(kind, b) ==
    LET c == Civil(b) IN
    CASE kind = "day" -> <<c.y, c.m, c.d>>
      [] kind = "week" -> <<IsoWeekYear(b), IsoWeek(b), 0>>
      [] kind = "month" -> <<c.y, c.m, 0>>
      [] kind = "quarter" -> <<c.y, Quarter(c.m), 0>>
      [] kind = "year" -> <<c.y, 0, 0>>
RECURSIVE SortedSeq(_)
SortedSeq(S) == IF S = {} THEN <<>>
                ELSE LET m == CHOOSE x \in S : \A y \in S : x <= y IN <<m>> \o SortedSeq(S \ {m})
KindOfId(id) == LET rest == Drop(id, 7)  i == FindIn(rest, 1, {":"}) IN Take(rest, i - 1)      \* "report:<kind>:<variant>"
VariantOfId(id) == LET rest == Drop(id, 7)  i == FindIn(rest, 1, {":"}) IN Drop(rest, i)

ReportOK(run, R) ==
    LET kind == KindOfId(run.id)
        fill == VariantOfId(run.id) = "fill"
        rp == run.report
        bs == SortedSeq(Buckets(R, kind, fill))
    IN  /\ run.code = 0 /\ rp.parsed /\ rp.has_grand
        /\ Len(rp.rows) = Len(bs)
        /\ \A i \in 1..Len(bs) :
              LET row == RowOf(R, kind, bs[i])  o == rp.rows[i] IN
              /\ <<o.y, o.sub, o.d>> = RowLabel(kind, bs[i])
              /\ kind = "day" => o.wd = Weekday(bs[i])
              /\ o.cells = IF row.empty THEN <<>>
                           ELSE IF fill THEN <<row.total>> ELSE <<row.total, row.should, row.diff>>
        /\ rp.grand = IF fill THEN <<Total(R)>> ELSE <<Total(R), ShouldSum(R), Diff(R)>>
        /\ SumSeq([i \in 1..Len(rp.rows) |-> IF rp.rows[i].cells = <<>> THEN 0 ELSE rp.rows[i].cells[1]], 1) = rp.grand[1]

(***************************************************************************)
(* print --with-totals: record totals on headlines, entry totals on entry   *)
(* lines, nothing on other lines                                            *)
(***************************************************************************)
RECURSIVE PwtEntries(_, _)
PwtEntries(es, i) == IF i > Len(es) THEN <<>>
                     ELSE <<[has |-> TRUE, v |-> EntryMins(es[i])]>>
                          \o [m \in 1..(Len(es[i].summary) - 1) |-> [has |-> FALSE, v |-> 0]]
                          \o PwtEntries(es, i + 1)
RECURSIVE PwtExpected(_, _)
PwtExpected(R, k) == IF k > Len(R) THEN <<>>
                     ELSE <<[has |-> TRUE, v |-> RecTotal(R[k])]>>
                          \o [m \in 1..Len(R[k].summary) |-> [has |-> FALSE, v |-> 0]]
                          \o PwtEntries(R[k].entries, 1) \o PwtExpected(R, k + 1)
PwtOK(run, R) ==
    LET ex == PwtExpected(R, 1) IN
    /\ run.code = 0 /\ run.pwt.parsed
    /\ Len(run.pwt.rows) = Len(ex)
    /\ \A i \in 1..Len(ex) : run.pwt.rows[i].has = ex[i].has /\ run.pwt.rows[i].v = ex[i].v

(***************************************************************************)
(* filters                                                                  *)
(***************************************************************************)
NoQueryJson == [at |-> -1, since |-> -1, until |-> -1, tags |-> <<>>, etype |-> ""]
QueryOf(q) == [at |-> q.at, since |-> q.since, until |-> q.until,
               tags |-> {<<q.tags[i][1], q.tags[i][2]>> : i \in 1..Len(q.tags)}, etype |-> q.etype]
(* what is compared of a record: date, per entry its summary and minutes *)
Shape(r) == <<FormatDate(r.date.ord, r.date.dashes), JoinStr(r.summary, "\n"), r.should, RecTotal(r) - r.should,
              [i \in 1..Len(r.entries) |-> <<JoinStr(r.entries[i].summary, "\n"), EntryMins(r.entries[i]), JsonTypeOf(r.entries[i])>>]>>
JShape(j) == <<j.date, j.summary, j.should_total_mins, j.diff_mins, [i \in 1..Len(j.entries) |-> <<j.entries[i].summary, j.entries[i].total_mins, j.entries[i].type>>]>>
ShapesOf(R) == [k \in 1..Len(R) |-> Shape(R[k])]
JShapesOf(js) == [k \in 1..Len(js) |-> JShape(js[k])]

(***************************************************************************)
(* tags                                                                     *)
(***************************************************************************)
TagRowsExpected(R) == {<<key[1], key[2], TagTotal(R, key), TagCount(R, key)>> : key \in AllTagKeys(R)}
(* the table pads its cells with blanks: blanks at the edges of a (quoted) value cannot be read back from it; *)
(* such values are judged through the JSON view only (C14.JsonTags)                                           *)
EdgeBlank(v) == v # "" /\ (IsSpaceOrTab(Ch(v, 1)) \/ IsSpaceOrTab(Ch(v, Len(v))))
TagRowsObserved(rows) == {<<rows[i].name, rows[i].value, rows[i].total, rows[i].count>> : i \in 1..Len(rows)}

(***************************************************************************)
(* today                                                                    *)
(***************************************************************************)
TodayOK(run, R, now) ==
    LET td == SelectSeq(R, LAMBDA r : r.date.ord = now.ord)
        yd == SelectSeq(R, LAMBDA r : r.date.ord = now.ord - 1)
        cur == IF td # <<>> THEN td ELSE yd
        oth == SelectSeq(R, LAMBDA r : IF td # <<>> THEN r.date.ord # now.ord ELSE r.date.ord # now.ord - 1)
        t == run.today
    IN  /\ run.code = 0 /\ t.parsed
        /\ t.current = (IF td # <<>> THEN "today" ELSE IF yd # <<>> THEN "yesterday" ELSE t.current)
        /\ t.cur_na = (cur = <<>>)
        /\ ~t.cur_na => t.cur = <<Total(cur), ShouldSum(cur), Diff(cur)>>
        /\ t.oth = <<Total(oth), ShouldSum(oth), Diff(oth)>>
        /\ t.all = <<Total(R), ShouldSum(R), Diff(R)>>
        /\ t.all[1] = (IF t.cur_na THEN 0 ELSE t.cur[1]) + t.oth[1]

(***************************************************************************)
(* styling                                                                  *)
(***************************************************************************)
StyleGroup(o, ci) == SelectSeq(o.runs, LAMBDA r : StartsWith(r.id, "style:" \o NatStr(ci) \o ":"))
AllEqual(s) == \A i \in 1..Len(s) : s[i] = s[1]

Holds(r, ev, PD) ==
    LET c == ev.case  o == ev.obs  live == ev.panic = ""
        R == DocData(PD)
        now == c.nowv
        noRunPanic == \A i \in 1..Len(o.runs) : o.runs[i].panic = ""
    IN
    CASE r \in {"C02.NoPanic", "C12.NoPanic", "C13.NoPanic", "C14.NoPanic", "C18.NoPanic", "C20.NoPanic"} -> live /\ noRunPanic
      (* beyond the listed properties (drift metric, never a verdict): the warnings printed after the records *)
      [] r = "X.Warn" -> live =>
            \A i \in 1..Len(o.runs) :
                LET run == o.runs[i] IN
                StartsWith(run.id, "warn:") =>
                    LET got == [k \in 1..Len(run.warn) |-> <<ParseDate(run.warn[k].date).ord, run.warn[k].msg>>]
                        off == IF run.id = "warn:cfg" THEN {"UNCLOSED_OPEN_RANGE", "OVERLAPPING_RANGES"} ELSE {}
                        ex == Warnings(R, now, off)
                    IN  run.code = 0 /\ (IF DistinctDates(R) THEN got = ex ELSE BagEq(got, ex))
      [] r = "C02.Json" -> live /\ HasRun(o, "json") =>
            LET j == RunById(o, "json") IN j.code = 0 /\ j.json.wellformed /\ JsonRecordsOK(j.json.records, Recs(PD))
      [] r = "C02.Total" -> live /\ HasRun(o, "total:plain") =>
            LET t == RunById(o, "total:plain") IN
            t.code = 0 /\ t.total.total = Total(R) /\ t.total.should = ShouldSum(R) /\ t.total.diff = Diff(R) /\ t.total.count = Len(R)
      [] r = "C02.TotalHM" -> live /\ HasRun(o, "total:hm") =>
            LET t == RunById(o, "total:hm") IN
            t.code = 0 /\ t.total.total = Total(R) /\ t.total.should = ShouldSum(R) /\ t.total.diff = Diff(R)
      [] r \in {"C02.Now", "C17.Now"} -> live /\ HasRun(o, "total:now") =>
            LET t == RunById(o, "total:now")  cl == CloseAll(R, now) IN
            IF cl.ok THEN /\ t.code = 0 /\ t.total.total = Total(cl.recs) /\ t.total.diff = Diff(cl.recs)
                          /\ HasRun(o, "json:now") =>
                                LET j == RunById(o, "json:now") IN
                                j.code = 0 /\ \A k \in 1..Len(cl.recs) : j.json.records[k].total_mins = RecTotal(cl.recs[k])
            ELSE t.code # 0 /\ (HasRun(o, "json:now") => RunById(o, "json:now").code # 0)
      [] r \in {"C02.Pwt", "C12.Pwt"} -> live /\ HasRun(o, "pwt") /\ R # <<>> => PwtOK(RunById(o, "pwt"), R)
      [] r = "C12.Rows" -> live =>
            \A i \in 1..Len(o.runs) : StartsWith(o.runs[i].id, "report:") =>
                LET Rf == Filter(R, QueryOf(c.runs[i].q))     \* the report is over the filtered data ...
                    cl == CloseAll(Rf, now)                   \* ... with open ranges closed if --now is given
                IN  IF c.runs[i].now
                    THEN (IF cl.ok THEN (Rf # <<>> => ReportOK(o.runs[i], cl.recs)) ELSE o.runs[i].code # 0)
                    ELSE Rf # <<>> => ReportOK(o.runs[i], Rf)
      [] r = "C12.Sums" -> live /\ HasRun(o, "total:plain") =>
            \A i \in 1..Len(o.runs) : StartsWith(o.runs[i].id, "report:") /\ R # <<>> /\ o.runs[i].report.has_grand
                                       /\ c.runs[i].q = NoQueryJson /\ ~c.runs[i].now =>
                o.runs[i].report.grand[1] = RunById(o, "total:plain").total.total
      [] r = "C12.Today" -> live /\ HasRun(o, "today") => TodayOK(RunById(o, "today"), R, now)
      [] r \in {"C12.TodayNow", "C17.TodayNow"} -> live /\ HasRun(o, "today:now") =>
            LET cl == CloseAll(R, now) IN
            IF cl.ok THEN TodayOK(RunById(o, "today:now"), cl.recs, now) ELSE RunById(o, "today:now").code # 0
      [] r = "C13.Select" -> live =>
            \A i \in 1..Len(o.runs) :
                LET run == o.runs[i] IN
                StartsWith(run.id, "json") /\ ~StartsWith(run.id, "json:sort") /\ ~StartsWith(run.id, "json:now") =>
                    /\ run.code = 0 /\ run.json.wellformed
                    /\ JShapesOf(run.json.records) = ShapesOf(Filter(R, QueryOf(c.runs[i].q)))
      (* --tag selects exactly the entries (or whole records) carrying the tag, also next to other clauses *)
      [] r = "C14.Match" -> live =>
            \A i \in 1..Len(o.runs) :
                LET run == o.runs[i] IN
                StartsWith(run.id, "json") /\ ~StartsWith(run.id, "json:sort") /\ ~StartsWith(run.id, "json:now")
                /\ Len(c.runs[i].q.tags) > 0 =>
                    /\ run.code = 0 /\ run.json.wellformed
                    /\ JShapesOf(run.json.records) = ShapesOf(Filter(R, QueryOf(c.runs[i].q)))
      (* the JSON document of a filtered selection: every field of exactly the selected data *)
      [] r = "C20.Filtered" -> live =>
            \A i \in 1..Len(o.runs) :
                LET run == o.runs[i] IN
                StartsWith(run.id, "json:") /\ ~StartsWith(run.id, "json:sort") /\ ~StartsWith(run.id, "json:now") =>
                    /\ run.code = 0 /\ run.json.wellformed
                    /\ JShapesOf(run.json.records) = ShapesOf(Filter(R, QueryOf(c.runs[i].q)))
      [] r = "C13.Print" -> live =>
            \A i \in 1..Len(o.runs) :
                LET run == o.runs[i] IN
                StartsWith(run.id, "print:") /\ run.id # "print:combo" =>
                    LET sel == Filter(Recs(PD), QueryOf(c.runs[i].q)) IN
                    /\ run.code = 0
                    /\ run.out = IF sel = <<>> THEN "" ELSE LF \o PrintDoc(sel) \o LF
      [] r = "C13.Sort" -> live =>
            \A i \in 1..Len(o.runs) :
                LET run == o.runs[i] IN
                StartsWith(run.id, "json:sort") =>
                    LET js == JShapesOf(run.json.records)
                        ex == ShapesOf(Filter(R, QueryOf(c.runs[i].q)))
                        asc == run.id \in {"json:sort-asc", "json:sort-ASC"}
                    IN  /\ run.code = 0
                        /\ IsPermutation(js, ex)
                        /\ \A k \in 1..(Len(js) - 1) :
                              IF asc THEN ParseDate(js[k][1]).ord <= ParseDate(js[k + 1][1]).ord
                              ELSE ParseDate(js[k][1]).ord >= ParseDate(js[k + 1][1]).ord
                        (* the same order in the other views that sort: canonical text, text with totals *)
                        /\ \A j \in 1..Len(o.runs) :
                              LET x == o.runs[j]
                                  up == EndsWith(x.id, "asc")
                                  srt == SortRecs(Recs(PD), up)
                              IN  /\ StartsWith(x.id, "sortprint:") /\ DistinctDates(R) =>
                                        x.code = 0 /\ x.out = LF \o PrintDoc(srt) \o LF
                                  /\ StartsWith(x.id, "pwt:sort-") /\ DistinctDates(R) =>
                                        PwtOK(x, SortRecs(R, up))
      [] r = "C14.JsonTags" -> live /\ HasRun(o, "json") =>
            LET j == RunById(o, "json") IN
            /\ j.code = 0 /\ j.json.wellformed /\ j.json.tags_sorted
            /\ Len(j.json.records) = Len(R)
            /\ \A k \in 1..Len(R) :
                  /\ BagEq(j.json.records[k].tags, TagStrs(TagsOfLines(R[k].summary)))
                  /\ \A i \in 1..Len(R[k].entries) :
                        BagEq(j.json.records[k].entries[i].tags, TagStrs(TagsOfLines(R[k].entries[i].summary)))
      [] r = "C14.Totals" -> live /\ HasRun(o, "tags") /\ ~(\E key \in AllTagKeys(R) : EdgeBlank(key[2])) =>
            LET t == RunById(o, "tags") IN
            /\ t.code = 0 /\ t.tags.parsed
            /\ TagRowsObserved(t.tags.rows) = TagRowsExpected(R)
            /\ Len(t.tags.rows) = Cardinality(TagRowsExpected(R))
      [] r = "C18.Strip" -> live =>
            \A ci \in 1..14 : LET g == StyleGroup(o, ci) IN
                g # <<>> => AllEqual([i \in 1..Len(g) |-> g[i].stripped]) /\ AllEqual([i \in 1..Len(g) |-> g[i].code])
                            /\ \A i \in 1..Len(g) : ~g[i].has_esc
      [] r = "C18.Plain" -> live =>
            \A i \in 1..Len(o.runs) :
                StartsWith(o.runs[i].id, "style:") /\ (\E s \in {":4", ":5", ":6"} : EndsWith(o.runs[i].id, s)) =>
                    o.runs[i].out = o.runs[i].stripped
      [] r = "C18.Widths" -> live =>
            \A ci \in 4..14 : ci # 10 => LET g == StyleGroup(o, ci) IN
                \A i \in 1..Len(g) : AllEqual(g[i].widths)
      [] r = "C20.WellFormed" -> live =>
            \A i \in 1..Len(o.runs) : StartsWith(o.runs[i].id, "json") /\ o.runs[i].code = 0 =>
                LET j == o.runs[i].json IN j.wellformed /\ j.errors_null /\ ~j.records_null
      [] r = "C20.Record" -> live /\ HasRun(o, "json") =>
            LET j == RunById(o, "json") IN j.code = 0 /\ j.json.wellformed /\ j.json.tags_sorted /\ JsonRecordsOK(j.json.records, Recs(PD))
      [] r = "C20.Arithmetic" -> live =>
            \A i \in 1..Len(o.runs) : StartsWith(o.runs[i].id, "json") /\ o.runs[i].code = 0 => JsonArith(o.runs[i].json.records)

Failed(ev) == LET PD == ParseDoc(ev.case.text) IN {r \in RuleNames : ~Holds(r, ev, PD)}
Accept == l > 0 => LET v == Failed(Trace[l]) IN v = {} \/ (PrintT(<<"VIOL", l, v>>) /\ FALSE)
=============================================================================
