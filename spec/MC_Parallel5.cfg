SPECIFICATION Spec
CONSTANTS N = 5
 StoreByArrival = FALSE
INVARIANTS ByIndex NoSendAfterClose EachOnce
PROPERTY CollectorTerminates
