----------------------------- MODULE MC_Tokens -----------------------------
(***************************************************************************)
(* C06: all short sequences over an alphabet of klog fragments (including   *)
(* symbols for invalid UTF-8 bytes, NUL, lone CR and absurdly large         *)
(* numbers).  TLC evaluates the recogniser on each of them (the spec's own  *)
(* totality) and emits them as replay cases.                                *)
(***************************************************************************)
EXTENDS KParse, Json, IOUtils

VARIABLES shard, case
vars == <<shard, case>>

Out  == IOEnv.KV_OUT
Tier == IOEnv.KV_TIER
Seed == atoi(IOEnv.KV_SEED)
Full == Tier = "thorough"
None == [kind |-> "none"]

Tok == <<"2020-01-01", "2020-13-01", " (8h!)", "(", LF, CRLF, CR, "  ", "    ", TAB, NBSP, "1h", "-", "8:00",
         " - ", "?", "9:00-8:00", "x", "#a=", SymFF, SymE4, SymNUL, "99999999999999999999h", "9223372036854775807m">>
NT == Len(Tok)

(* shards: the first two tokens; cases: all completions up to the length bound *)
Shards == {[a |-> 0, b |-> 0]} \cup {[a |-> i, b |-> 0] : i \in 1..NT} \cup {[a |-> i, b |-> j] : i, j \in 1..NT}

T(i) == IF i = 0 THEN "" ELSE Tok[i]
(* quick tier: all texts of <= 3 tokens, and a seed-rotated quarter of those with 4 *)
Pick4(i, j, k, m) == Full \/ (i + 3 * j + 5 * k + 7 * m + Seed) % 4 = 0
Pick5(i, j, k, m, n) == Full /\ (i + 3 * j + 5 * k + 7 * m + 11 * n + Seed) % 24 = 0

(* hand-picked absurd inputs: numbers beyond every integer range, in every numeric position *)
ExtraTexts == {"2020-01-01\n    9223372036854775807h\n", "2020-01-01\n    9223372036854775807m\n", "2020-01-01 (-9223372036854775807m!)\n    1h\n",
               "2020-01-01\n    9223372036854775807m\n    9223372036854775807m\n",
               "2020-01-01\n    -9223372036854775807m\n    -9223372036854775807m\n",
               "2020-01-01 (99999999999999999999h!)\n",
               "2020-01-01 (9223372036854775807h!)\n",
               "2020-01-01 (9223372036854775807m!)\n\n2020-01-02 (9223372036854775807m!)\n",
               "2020-01-01\n    153722867280912930h7m\n    153722867280912930h7m\n",
               "99999999999999999999-01-01\n", "2020-01-01\n    99999999999999999999:00 - 9:00\n",
               "2020-01-01\n    8:00 - 9:00 " \o SymFF \o SymE4 \o SymB8 \o "\n",
               "2020-01-01\n" \o SymF0 \o SymNUL \o "\n    1h " \o CR \o "x\n",
               (* the first and the last representable date with times shifted beyond them *)
               "9999-12-31\n    0:15> - 1:00>\n", "9999-12-31\n    0:15> - ?\n", "9999-12-31\n    23:00 - 0:30>\n    1h\n",
               "0000-01-01\n    <23:00 - 1:00\n", "0000-01-01\n    <23:00 - <23:30\n    <22:00 - ?\n",
               "0000-01-01 (8h!)\n    1h\n\n9999-12-31 (-8h!)\n    -1h\n", "9999-12-31\n    <0:00 - 23:59>\n",
               "0000-01-02\n    <0:00 - ?\n\n9999-12-30\n    0:00> - 23:59>\n"}

TextsOf(sh) ==
    IF sh.a = 0 THEN {""} \cup ExtraTexts
    ELSE IF sh.b = 0 THEN {T(sh.a)}
    ELSE {T(sh.a) \o T(sh.b)}
         \cup {T(sh.a) \o T(sh.b) \o T(k) : k \in 1..NT}
         \cup {T(sh.a) \o T(sh.b) \o T(km[1]) \o T(km[2])
                : km \in {x \in (1..NT) \X (1..NT) : Pick4(sh.a, sh.b, x[1], x[2])}}
         \cup (IF ~Full THEN {} ELSE
               {T(sh.a) \o T(sh.b) \o T(x[1]) \o T(x[2]) \o T(x[3])
                : x \in {y \in (1..NT) \X (1..NT) \X (1..NT) : Pick5(sh.a, sh.b, y[1], y[2], y[3])}})

Init == shard \in Shards /\ case = None
Next == /\ case = None
        /\ \E t \in TextsOf(shard) : case' = [kind |-> "fuzz", text |-> t, all |-> t \in ExtraTexts]
        /\ UNCHANGED shard

Emit == Serialize(ToJson(case') \o "\n", Out,
                  [format |-> "TXT", charset |-> "UTF-8",
                   openOptions |-> <<"WRITE", "CREATE", "APPEND">>]).exitValue = 0

(* the recogniser is total and self-consistent on every text *)
SpecTotal ==
    case.kind = "fuzz" =>
        LET P == ParseDoc(case.text) IN
        /\ P.status \in {"Conforming", "Violating", "Unspecified"}
        /\ JoinLines(P.lines) = case.text
        /\ P.ok <=> P.firstBadLine = 0
=============================================================================
