INIT Init
NEXT Next
ACTION_CONSTRAINT Emit
INVARIANTS Laws
CHECK_DEADLOCK FALSE
