-------------------------------- MODULE KEval --------------------------------
(***************************************************************************)
(* Evaluation of records: totals (Specification.md, section III), closing   *)
(* open ranges at an instant (--now), filters and sorting, tag totals,      *)
(* report rows, and the JSON view.  Written from the specification, the     *)
(* command help texts and the statements of C02, C12, C13, C14, C17, C20.   *)
(* Records are the abstract data of KParse!DocData.                         *)
(***************************************************************************)
EXTENDS KParse, KRecord, KCalendar

EntryMins(e) == IF e.kind = "dur" THEN e.a ELSE IF e.kind = "range" THEN e.b - e.a ELSE 0

RECURSIVE SumSeq(_, _)
SumSeq(s, i) == IF i > Len(s) THEN 0 ELSE s[i] + SumSeq(s, i + 1)
RecTotal(r)  == SumSeq([i \in 1..Len(r.entries) |-> EntryMins(r.entries[i])], 1)
Total(R)     == SumSeq([k \in 1..Len(R) |-> RecTotal(R[k])], 1)
ShouldSum(R) == SumSeq([k \in 1..Len(R) |-> R[k].should], 1)
Diff(R)      == Total(R) - ShouldSum(R)

(***************************************************************************)
(* --now: open ranges of records dated today or yesterday are closed at     *)
(* the given instant; anything else cannot be closed.                       *)
(***************************************************************************)
HasOpen(r) == \E i \in 1..Len(r.entries) : r.entries[i].kind = "open"
CloseEnd(r, now) == IF r.date.ord = now.ord THEN now.min
                    ELSE IF r.date.ord = now.ord - 1 THEN now.min + 1440
                    ELSE -99999
Closeable(r, now) == ~HasOpen(r) \/
                     (CloseEnd(r, now) # -99999 /\
                      \A i \in 1..Len(r.entries) : r.entries[i].kind = "open" => r.entries[i].a <= CloseEnd(r, now))
CloseRec(r, now) == [r EXCEPT !.entries = [i \in 1..Len(r.entries) |->
                        IF r.entries[i].kind = "open"
                        THEN [r.entries[i] EXCEPT !.kind = "range", !.b = CloseEnd(r, now)]
                        ELSE r.entries[i]]]
CloseAll(R, now) == [ok |-> \A k \in 1..Len(R) : Closeable(R[k], now),
                     recs |-> [k \in 1..Len(R) |-> CloseRec(R[k], now)]]

(***************************************************************************)
(* Filters.  A query is                                                     *)
(*   [at |-> ord or -1, since |-> ord or -1, until |-> ord or -1,           *)
(*    tags |-> set of <<name, value>>, etype |-> "" or an entry type]       *)
(***************************************************************************)
NoQuery == [at |-> -1, since |-> -1, until |-> -1, tags |-> {}, etype |-> ""]

DateMatches(r, q) == /\ q.at = -1 \/ r.date.ord = q.at
                     /\ q.since = -1 \/ r.date.ord >= q.since
                     /\ q.until = -1 \/ r.date.ord <= q.until
RecTagSet(r) == TagSetOf(TagsOfLines(r.summary))
EntryTagSet(r, e) == RecTagSet(r) \cup TagSetOf(TagsOfLines(e.summary))
TypeMatches(e, t) == CASE t = "" -> TRUE
                       [] t = "range" -> e.kind = "range"
                       [] t = "open-range" -> e.kind = "open"
                       [] t = "duration" -> e.kind = "dur"
                       [] t = "duration-positive" -> e.kind = "dur" /\ e.a >= 0
                       [] t = "duration-negative" -> e.kind = "dur" /\ e.a < 0
SelectEntries(es, P(_)) == SelectSeq(es, P)

(* the record as it appears in the result, or "none" *)
FilterRec(r, q) ==
    IF ~DateMatches(r, q) THEN [keep |-> FALSE, rec |-> r]
    ELSE
    LET byTag == IF q.tags = {} \/ q.tags \subseteq RecTagSet(r) THEN r.entries
                 ELSE SelectSeq(r.entries, LAMBDA e : q.tags \subseteq EntryTagSet(r, e))
        dropTag == q.tags # {} /\ ~(q.tags \subseteq RecTagSet(r)) /\ byTag = <<>>
        byType == IF q.etype = "" THEN byTag ELSE SelectSeq(byTag, LAMBDA e : TypeMatches(e, q.etype))
        dropType == q.etype # "" /\ byType = <<>>
    IN  [keep |-> ~dropTag /\ ~dropType, rec |-> [r EXCEPT !.entries = byType]]
RECURSIVE FilterFrom(_, _, _)
FilterFrom(R, q, k) == IF k > Len(R) THEN <<>>
                       ELSE LET f == FilterRec(R[k], q) IN
                            (IF f.keep THEN <<f.rec>> ELSE <<>>) \o FilterFrom(R, q, k + 1)
Filter(R, q) == FilterFrom(R, q, 1)

IsSortedBy(R, asc) == \A k \in 1..(Len(R) - 1) :
                         IF asc THEN R[k].date.ord <= R[k + 1].date.ord ELSE R[k].date.ord >= R[k + 1].date.ord
(* the records in date order; records of the same date keep their order *)
RECURSIVE SortRecs(_, _)
SortRecs(R, asc) ==
    IF R = <<>> THEN <<>>
    ELSE LET better(i, j) == IF asc THEN R[i].date.ord < R[j].date.ord ELSE R[i].date.ord > R[j].date.ord
             i == CHOOSE x \in 1..Len(R) : \A j \in 1..Len(R) : ~better(j, x) /\ (R[j].date.ord = R[x].date.ord => x <= j)
         IN  <<R[i]>> \o SortRecs(SubSeq(R, 1, i - 1) \o SubSeq(R, i + 1, Len(R)), asc)
DistinctDates(R) == \A i, j \in 1..Len(R) : i # j => R[i].date.ord # R[j].date.ord
(* S is a reordering of R (as bags of records) *)
IsPermutation(S, R) ==
    /\ Len(S) = Len(R)
    /\ \A k \in 1..Len(R) : Cardinality({j \in 1..Len(S) : S[j] = R[k]}) = Cardinality({j \in 1..Len(R) : R[j] = R[k]})

(***************************************************************************)
(* Tag totals: each entry counts once for every tag and tag=value it        *)
(* carries (its own tags and those of the record summary).                  *)
(***************************************************************************)
AllTagKeys(R) == UNION {UNION {EntryTagSet(R[k], R[k].entries[i]) : i \in 1..Len(R[k].entries)} : k \in 1..Len(R)}
TagTotal(R, key) ==
    SumSeq([k \in 1..Len(R) |->
              SumSeq([i \in 1..Len(R[k].entries) |->
                        IF key \in EntryTagSet(R[k], R[k].entries[i]) THEN EntryMins(R[k].entries[i]) ELSE 0], 1)], 1)
TagCount(R, key) ==
    SumSeq([k \in 1..Len(R) |->
              SumSeq([i \in 1..Len(R[k].entries) |->
                        IF key \in EntryTagSet(R[k], R[k].entries[i]) THEN 1 ELSE 0], 1)], 1)

(***************************************************************************)
(* Report: one row per calendar bucket that holds a record (or, with fill,  *)
(* per bucket between the first and the last date), in chronological order. *)
(***************************************************************************)
BucketOf(kind, ord) == PeriodOf(kind, ord).since
(* all buckets from bucket b up to the one containing hi, stepping period by period *)
RECURSIVE BucketsBetween(_, _, _)
BucketsBetween(kind, b, hi) == IF b > hi THEN {} ELSE {b} \cup BucketsBetween(kind, PeriodOf(kind, Max(b, 0)).until + 1, hi)
Buckets(R, kind, fill) ==
    LET own == {BucketOf(kind, R[k].date.ord) : k \in 1..Len(R)}
        lo == CHOOSE o \in {R[k].date.ord : k \in 1..Len(R)} : \A k \in 1..Len(R) : o <= R[k].date.ord
        hi == CHOOSE o \in {R[k].date.ord : k \in 1..Len(R)} : \A k \in 1..Len(R) : o >= R[k].date.ord
    IN  IF ~fill THEN own ELSE BucketsBetween(kind, BucketOf(kind, lo), hi)
InBucket(R, kind, b) == SelectSeq(R, LAMBDA r : BucketOf(kind, r.date.ord) = b)
RowOf(R, kind, b) == LET rs == InBucket(R, kind, b) IN
                     [bucket |-> b, empty |-> rs = <<>>, total |-> Total(rs), should |-> ShouldSum(rs), diff |-> Diff(rs)]
=============================================================================
