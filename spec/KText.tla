------------------------------- MODULE KText -------------------------------
(***************************************************************************)
(* Characters, strings and lines.  Text is a TLA+ string; a character is a  *)
(* one-character string.  TLC supports Len, \o and SubSeq on strings, which *)
(* is all that is used here.  Written from Specification.md (sections I,    *)
(* II and the glossary), not from the Go code.                              *)
(***************************************************************************)
EXTENDS Integers, Sequences, FiniteSets, TLC

LF   == "\n"
CR   == "\r"
CRLF == "\r\n"
TAB  == "\t"
SP   == " "

Ch(s, i)   == SubSeq(s, i, i)
Take(s, n) == IF n <= 0 THEN "" ELSE IF n >= Len(s) THEN s ELSE SubSeq(s, 1, n)
Drop(s, n) == IF n <= 0 THEN s ELSE IF n >= Len(s) THEN "" ELSE SubSeq(s, n + 1, Len(s))
Mid(s, i, j) == IF i > j THEN "" ELSE SubSeq(s, i, j)       \* 1 <= i, j <= Len(s) required
LastCh(s)  == IF s = "" THEN "" ELSE Ch(s, Len(s))

StartsWith(s, p) == Len(s) >= Len(p) /\ Take(s, Len(p)) = p
EndsWith(s, p)   == Len(s) >= Len(p) /\ Drop(s, Len(s) - Len(p)) = p

Digits == {"0", "1", "2", "3", "4", "5", "6", "7", "8", "9"}
IsDigit(c) == c \in Digits
DigitVal(c) == CASE c = "0" -> 0 [] c = "1" -> 1 [] c = "2" -> 2 [] c = "3" -> 3
                 [] c = "4" -> 4 [] c = "5" -> 5 [] c = "6" -> 6 [] c = "7" -> 7
                 [] c = "8" -> 8 [] c = "9" -> 9
DigitStr(n) == CASE n = 0 -> "0" [] n = 1 -> "1" [] n = 2 -> "2" [] n = 3 -> "3"
                 [] n = 4 -> "4" [] n = 5 -> "5" [] n = 6 -> "6" [] n = 7 -> "7"
                 [] n = 8 -> "8" [] n = 9 -> "9"

AllDigits(s) == \A i \in 1..Len(s) : IsDigit(Ch(s, i))

(* Value of a digit string.  TLC integers are 32 bit: callers must make     *)
(* sure the significant part has at most 9 digits (see NumTooBig).          *)
RECURSIVE NatOfAcc(_, _, _)
NatOfAcc(s, i, acc) == IF i > Len(s) THEN acc
                       ELSE NatOfAcc(s, i + 1, acc * 10 + DigitVal(Ch(s, i)))
NatOf(s) == NatOfAcc(s, 1, 0)

RECURSIVE StripZeros(_)
StripZeros(s) == IF Len(s) > 1 /\ Ch(s, 1) = "0" THEN StripZeros(Drop(s, 1)) ELSE s
NumTooBig(s) == Len(StripZeros(s)) > 7          \* > 9 999 999: outside the modelled range

RECURSIVE NatStr(_)
NatStr(n) == IF n < 10 THEN DigitStr(n) ELSE NatStr(n \div 10) \o DigitStr(n % 10)
Pad2(n) == IF n < 10 THEN "0" \o DigitStr(n) ELSE NatStr(n)
Pad4(n) == IF n < 10 THEN "000" \o NatStr(n) ELSE IF n < 100 THEN "00" \o NatStr(n)
           ELSE IF n < 1000 THEN "0" \o NatStr(n) ELSE NatStr(n)

(***************************************************************************)
(* Character classes.  Unicode classes are represented by finite sets of    *)
(* representatives (DESIGN 3.1); everything not listed is "other".          *)
(***************************************************************************)
AsciiLower == {"a","b","c","d","e","f","g","h","i","j","k","l","m","n","o","p","q","r","s","t","u","v","w","x","y","z"}
AsciiUpper == {"A","B","C","D","E","F","G","H","I","J","K","L","M","N","O","P","Q","R","S","T","U","V","W","X","Y","Z"}
OtherLetters == {"ä", "Ä", "ß", "日", "本", "語", "読", "む", "Σ", "σ", "é", "ö", "ü", "ï"}
Letters == AsciiLower \cup AsciiUpper \cup OtherLetters
IsLetter(c) == c \in Letters

RCHAR == "�"       \* U+FFFD REPLACEMENT CHARACTER (a valid character like any other)
NBSP  == " "       \* U+00A0 NO-BREAK SPACE (Zs)
IDSP  == "　"       \* U+3000 IDEOGRAPHIC SPACE (Zs)
ZsOther == {NBSP, IDSP}
IsSpaceOrTab(c) == c = SP \/ c = TAB
IsBlankChar(c)  == c = SP \/ c = TAB \/ c \in ZsOther      \* glossary: tab or Zs (space is Zs)

(* A line is blank for the specification if it holds only blank characters; *)
(* BlankST is the narrower notion "only spaces and tabs".                   *)
AllChars(s, P(_)) == \A i \in 1..Len(s) : P(Ch(s, i))
BlankSpec(s) == AllChars(s, IsBlankChar)
BlankST(s)   == AllChars(s, IsSpaceOrTab)

(***************************************************************************)
(* Lines.  A line ends at LF; a CR directly before it belongs to the        *)
(* ending.  The last line may have no ending.                               *)
(***************************************************************************)
RECURSIVE SplitFrom(_, _, _)
SplitFrom(t, start, i) ==
    IF i > Len(t)
    THEN IF start > Len(t) THEN <<>>
         ELSE << [text |-> SubSeq(t, start, Len(t)), eol |-> ""] >>
    ELSE IF Ch(t, i) = LF
         THEN LET crlf == i > start /\ Ch(t, i - 1) = CR
                  line == IF crlf THEN [text |-> Mid(t, start, i - 2), eol |-> CRLF]
                                  ELSE [text |-> Mid(t, start, i - 1), eol |-> LF]
              IN  <<line>> \o SplitFrom(t, i + 1, i + 1)
         ELSE SplitFrom(t, start, i + 1)
SplitLines(t) == SplitFrom(t, 1, 1)

RECURSIVE JoinLines(_)
JoinLines(ls) == IF ls = <<>> THEN "" ELSE Head(ls).text \o Head(ls).eol \o JoinLines(Tail(ls))

RECURSIVE JoinStr(_, _)
JoinStr(ss, sep) == IF ss = <<>> THEN ""
                    ELSE IF Len(ss) = 1 THEN ss[1]
                    ELSE ss[1] \o sep \o JoinStr(Tail(ss), sep)

(* Position of the first character of s at or after i that is in set cs; Len+1 if none *)
RECURSIVE FindIn(_, _, _)
FindIn(s, i, cs) == IF i > Len(s) THEN Len(s) + 1
                    ELSE IF Ch(s, i) \in cs THEN i ELSE FindIn(s, i + 1, cs)
(* First position at or after i whose character is NOT in cs; Len+1 if none *)
RECURSIVE SkipIn(_, _, _)
SkipIn(s, i, cs) == IF i > Len(s) THEN Len(s) + 1
                    ELSE IF Ch(s, i) \in cs THEN SkipIn(s, i + 1, cs) ELSE i
SpTab == {SP, TAB}

Repeat(s, n) == IF n <= 0 THEN "" ELSE IF n = 1 THEN s ELSE IF n = 2 THEN s \o s
                ELSE IF n = 3 THEN s \o s \o s ELSE s \o s \o s \o s

(* Opaque symbols: the private-use code points U+E000..U+E0FF stand for the raw bytes 00..FF  *)
(* where these are not part of valid UTF-8 (the driver maps them both ways, DESIGN 3.1).      *)
PUASyms == {"", "", "", "", "", "", "", "", "", "", "", "", "", "", "", "", "", "", "", "", "", "", "", "", "", "", "", "", "", "", "", "", "", "", "", "", "", "", "", "", "", "", "", "", "", "", "", "", "", "", "", "", "", "", "", "", "", "", "", "", "", "", "", "", "", "", "", "", "", "", "", "", "", "", "", "", "", "", "", "", "", "", "", "", "", "", "", "", "", "", "", "", "", "", "", "", "", "", "", "", "", "", "", "", "", "", "", "", "", "", "", "", "", "", "", "", "", "", "", "", "", "", "", "", "", "", "", "", "", "", "", "", "", "", "", "", "", "", "", "", "", "", "", "", "", "", "", "", "", "", "", "", "", "", "", "", "", "", "", "", "", "", "", "", "", "", "", "", "", "", "", "", "", "", "", "", "", "", "", "", "", "", "", "", "", "", "", "", "", "", "", "", "", "", "", "", "", "", "", "", "", "", "", "", "", "", "", "", "", "", "", "", "", "", "", "", "", "", "", "", "", "", "", "", "", "", "", "", "", "", "", "", "", "", "", "", "", "", "", "", "", "", "", "", "", "", "", "", "", "", "", "", "", "", "", ""}
SymNUL == ""
Sym80  == ""
SymE4  == ""
SymB8  == ""
SymF0  == ""
SymFF  == ""
SymC3  == ""
SymA9  == ""
RuneErr == "�"      \* U+FFFD, what an invalid byte becomes inside parsed data

IndentStyles == <<"    ", "   ", "  ", TAB>>      \* longest first
IndentSet    == {"    ", "   ", "  ", TAB}

Max(a, b) == IF a >= b THEN a ELSE b
Min(a, b) == IF a <= b THEN a ELSE b

SeqToSet(s) == {s[i] : i \in DOMAIN s}
=============================================================================
