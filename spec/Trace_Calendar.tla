--------------------------- MODULE Trace_Calendar ---------------------------
(***************************************************************************)
(* C15, code -> spec: the per-year tables and bucket classes recorded from  *)
(* klog.Date and period.* are judged against KCalendar.                     *)
(***************************************************************************)
EXTENDS KCalendar, KText, Json, IOUtils

VARIABLES l, sh
Trace == ndJsonDeserialize(IOEnv.KV_TRACE)
N     == Len(Trace)
NSh   == 64

Init == l = 0 /\ sh = 0
Next == \/ /\ l = 0 /\ sh = 0
           /\ sh' \in 1..NSh /\ l' = 0
        \/ /\ l = 0 /\ sh > 0 /\ sh <= N
           /\ l' \in {sh + NSh * k : k \in 0..((N - sh) \div NSh)}
           /\ sh' = sh

Ymd(o) == LET c == Civil(o) IN c.y * 10000 + c.m * 100 + c.d
OrdOfYmd(v) == Ord(v \div 10000, (v \div 100) % 100, v % 100)
Clip(p) == [since |-> Max(p.since, 0), until |-> Min(p.until, MaxOrd)]

RECURSIVE StartsAcc(_, _, _)
StartsAcc(runs, i, acc) == IF i > Len(runs) THEN <<>> ELSE <<acc>> \o StartsAcc(runs, i + 1, acc + runs[i][1])
Starts(runs) == StartsAcc(runs, 1, 0)            \* 0-based day index at which run i starts
RECURSIVE SumLen(_, _)
SumLen(runs, i) == IF i > Len(runs) THEN 0 ELSE runs[i][1] + SumLen(runs, i + 1)

(* every date covered by run i satisfies P(ordinal, run) *)
RunsOK(runs, first, ndays, P(_, _)) ==
    /\ SumLen(runs, 1) = ndays
    /\ LET st == Starts(runs) IN
       \A i \in 1..Len(runs) : \A k \in 0..(runs[i][1] - 1) : P(first + st[i] + k, runs[i])

RECURSIVE WdString(_, _)
WdString(o, last) == IF o > last THEN "" ELSE DigitStr(Weekday(o)) \o WdString(o + 1, last)

(* expected period patterns of a year: <<pattern, since, until>> *)
PatSet(y) ==
    LET ys == Pad4(y)
        P(str, p) == <<str, Ymd(Clip(p).since), Ymd(Clip(p).until)>>
        jan1 == Ord(y, 1, 1)
    IN  {P(ys, YearOf(jan1))}
        \cup {P(ys \o "-" \o Pad2(m), MonthOf(Ord(y, m, 1))) : m \in 1..12}
        \cup {P(ys \o "-Q" \o DigitStr(q), QuarterOf(Ord(y, 3 * q, 1))) : q \in 1..4}
        \cup {P(ys \o "-W" \o Pad2(w), WeekOf(WeekStart(y, w))) : w \in 1..WeeksInYear(y)}
        \cup {P(ys \o "-W" \o DigitStr(w), WeekOf(WeekStart(y, w))) : w \in 1..9}

RuleNames == {"NoPanic", "Weekday", "WeekRuns", "MonthRuns", "QuarterRuns", "YearRuns", "PrevRuns",
              "BucketSplit", "Patterns", "HashClasses"}

(* consecutive runs must differ both in their period (else one period got two buckets) and in   *)
(* their hash (else two periods share a bucket); hash is the last component, since/until before *)
Adjacent(runs) ==
    \A i \in 1..(Len(runs) - 1) :
        LET a == runs[i]  b == runs[i + 1]  n == Len(a) IN
        /\ a[n] # b[n]
        /\ <<a[n - 2], a[n - 1]>> # <<b[n - 2], b[n - 1]>>

Holds(r, ev) ==
    LET c == ev.case  o == ev.obs  k == ev.case.kind  live == ev.panic = ""
        isY == k = "cal_year" /\ live
        y == c.year
        first == DaysBeforeYear(y)
        nd == IF IsLeap(y) THEN 366 ELSE 365
    IN
    CASE r = "NoPanic" -> ev.panic = "" /\ (k = "cal_year" => o.panics = <<>> /\ o.pat_panics = <<>>)
      [] r = "Weekday" -> isY => o.n = nd /\ o.wd = WdString(first, first + nd - 1)
      [] r = "WeekRuns" -> isY =>
            LET P(d, run) == LET p == Clip(WeekOf(d)) IN
                             \/ run[4] = -1        \* panicked: reported by NoPanic
                             \/ /\ run[2] = IsoWeek(d) /\ run[3] = IsoWeekYear(d)
                                /\ run[4] = Ymd(p.since) /\ run[5] = Ymd(p.until)
            IN RunsOK(o.week, first, nd, P)
      [] r = "MonthRuns" -> isY =>
            LET P(d, run) == LET p == MonthOf(d) IN run[2] = Ymd(p.since) /\ run[3] = Ymd(p.until)
            IN RunsOK(o.month, first, nd, P)
      [] r = "QuarterRuns" -> isY =>
            LET P(d, run) == LET p == QuarterOf(d) IN
                             run[2] = Quarter(Civil(d).m) /\ run[3] = Ymd(p.since) /\ run[4] = Ymd(p.until)
            IN RunsOK(o.quarter, first, nd, P)
      [] r = "YearRuns" -> isY =>
            LET P(d, run) == LET p == YearOf(d) IN run[2] = Ymd(p.since) /\ run[3] = Ymd(p.until)
            IN RunsOK(o.year, first, nd, P)
      [] r = "PrevRuns" -> isY =>      \* judged only where the previous period is representable
            LET W(d, run) == LET cur == WeekOf(d) IN
                             (cur.since >= 7) => run[2] = Ymd(cur.since - 7) /\ run[3] = Ymd(cur.since - 1)
                Mo(d, run) == LET cur == MonthOf(d) IN
                              (cur.since > 0) => LET p == MonthOf(cur.since - 1) IN run[2] = Ymd(p.since) /\ run[3] = Ymd(p.until)
                Q(d, run) == LET cur == QuarterOf(d) IN
                             (cur.since > 0) => LET p == QuarterOf(cur.since - 1) IN run[2] = Ymd(p.since) /\ run[3] = Ymd(p.until)
                Y(d, run) == LET cur == YearOf(d) IN
                             (cur.since > 0) => LET p == YearOf(cur.since - 1) IN run[2] = Ymd(p.since) /\ run[3] = Ymd(p.until)
            IN  /\ RunsOK(o.week_prev, first, nd, W)
                /\ RunsOK(o.month_prev, first, nd, Mo)
                /\ RunsOK(o.quarter_prev, first, nd, Q)
                /\ RunsOK(o.year_prev, first, nd, Y)
      [] r = "BucketSplit" -> isY =>
            Adjacent(o.week) /\ Adjacent(o.month) /\ Adjacent(o.quarter) /\ Adjacent(o.year)
      [] r = "Patterns" -> isY =>
            /\ o.pat_tested = 1 + 14 + 10 + 55 + 10
            /\ {o.pat_accepted[i] : i \in 1..Len(o.pat_accepted)} = PatSet(y)
            /\ Len(o.pat_accepted) = Cardinality(PatSet(y))
      [] r = "HashClasses" -> k = "hash_classes" /\ live =>
            LET lo == DaysBeforeYear(c.from)
                hi == Ord(c.to, 12, 31)
            IN  /\ o.n_dates = hi - lo + 1
                /\ IF c.k = "day" THEN o.n_classes = o.n_dates /\ o.multi = <<>>
                   ELSE \A i \in 1..Len(o.classes) :
                          LET mn == OrdOfYmd(o.classes[i][1])  mx == OrdOfYmd(o.classes[i][2])
                              p == PeriodOf(c.k, mn)
                          IN  mn = Max(p.since, lo) /\ mx = Min(p.until, hi)

Failed(ev) == {r \in RuleNames : ~Holds(r, ev)}
Accept == l > 0 => LET v == Failed(Trace[l]) IN v = {} \/ (PrintT(<<"VIOL", l, v>>) /\ FALSE)
=============================================================================
