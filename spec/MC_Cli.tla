------------------------------- MODULE MC_Cli -------------------------------
(***************************************************************************)
(* C03, C04, C05, C11: bounded instance of the command model.  States are   *)
(* (seed file, history of commands, abstract records after the history);    *)
(* TLC explores every history up to the tier's depth over the pools below,  *)
(* checks the model's own invariants in every state and emits each history  *)
(* as a replay case for the real CLI.                                       *)
(***************************************************************************)
EXTENDS KCliText, Json, IOUtils

VARIABLES seed, hist, R, ok, file
vars == <<seed, hist, R, ok, file>>

Out  == IOEnv.KV_OUT
Tier == IOEnv.KV_TIER
SeedN == atoi(IOEnv.KV_SEED)
Mode == IOEnv.KV_MODE            \* "single" | "pairs" | "style"
Full == Tier = "thorough"

Today == Ord(2020, 3, 15)
Now0  == [ord |-> Today, min |-> 12 * 60 + 3, sec |-> 20]
Cfg0  == [datefmt |-> "", timeconv |-> "", rounding |-> 0, should |-> ""]

Seeds == <<
    "",
    "\n  \n",
    "2020-03-15\n    8:00 - ?\n",
    "2020-03-15\n    8:00 - 9:00\n    1h\n",
    "2020-03-14\n    22:00 - ? late #night\n",
    "2020-03-14\n    22:00 - ?\n\n2020-03-15\n    1h\n",
    "2020-03-13\r\n\t8:00am - 9:00am\r\n\r\n2020/03/14 (8h!)\r\nSummary\r\n  9:00-??\r\n    cont #a\r\n\r\n\r\n2020-03-16\r\n   1h",
    "2020-03-16\n    1h\n\n2020-03-13\n    2h\n",
    "2020-03-15\n    1h\n\n2020-03-15\n    9:00 - ?\n",
    "2020-03-15\n    8:00 - ? work\n        more #x=1\n    -30m lunch-break\n    0m nap-time\n",
    "\n\n2020-03-15 (7h30m!)\nDay summary #tag\n\n\n",
    "2020/03/15\n  8:00am-? #a #b=\"c d\"\n",
    "2020-03-12\n  1h\n\n2020-03-13\n\t1h\n",
    "  \n2020-03-15\n\t1h\n",
    "2020-03-15\n    8:00 - ?\n  \n\t\n2020-03-16\n    1h\n",
    "2020-03-15\n    8:00 - ?",
    "2020-03-15",
    "2020-03-15\n    8:00 - ? a?b ?\n",
    "2020-03-15\n    <23:00 - ?\n",
    "2020-03-15\n    8:00 - ?\n    +0m break-time\n",
    "2020-03-15\nfoo\n bar\n",
    "2020-03-14\n    8:00 - 9:00\n\n2020-03-15\n    10:00 - 11:00\n    12:00 - ?\n\n2020-03-16\n    1h\n",
    "2020-03-14\r\n    8:00 - 9:00\r\n\r\n2020-03-15\r\n    1h\r\n",
    "2020-03-15\n   9:00pm - ???\n      note\n",
    "<<no such file>>",
    "2020-03-15\r\n    1h\n    2h Bar\n",
    "2020-03-13\r\n    1h\r\n\r\n2020-03-14\n    3h\n\r\n2020-03-16\r\n    1h\r\n",
    "2020-03-14\n    22:00 - ? x\r\n        more\n\n2020-03-15\r\n\t9:00 - ?\n\t\tnote\r\n",
    "2020-03-15\n    8:00 - ???????????? long placeholder\n    -1h59m pause\n\n2020-03-16\n    1h\n",
    "2020-03-15\n    8:00 - ?  \n",
    "2020-03-15\n    8:00 - ? Meeting   \n        more  \n    -5m \n",
    (* a longer file (several records per worker of the parallel parser), headlines followed by blanks *)
    "2020-03-06 \n    1h\n\n2020-03-07 (7h30m!)\t\nSummary\n    8:00 - 9:00\n\n2020-03-08\n    2h #a\n        more\n\n\n2020-03-09\n    30m\n\n"
        \o "2020-03-10\n    8:00-8:30\n    1h\n\n2020-03-11  \n    -10m\n\n2020-03-12\n    9:00 - 10:00 x\n\n2020-03-13\n    1h\n\n"
        \o "2020-03-14 (8h!)\n    22:00 - ?\n\n2020-03-15 \t\n    8:00 - ? work #w\n    -15m break\n\n2020-03-16\n    1h\n\n2020-03-17\n    2h\n",
    (* a point-in-time range before the open range; a closed range in another notation before the open range *)
    "2020-03-14\n    7:00 - 7:00\n    7:30 - 8:00\n\n2020-03-15\n    7:00 - 7:00\n    8:00 - ?\n",
    "2020-03-15\n    8:00 - 9:00\n    10:00am-??? x\n",
    (* newest record first, the record of today in the middle *)
    "2020-03-16\n    1h\n\n2020-03-15\n    2h first\n\n2020-03-14\n    22:00 - ? late\n\n2020-03-13\n    1h\n",
    (* the only open range of the file (with a long placeholder) is in another record than the target, which has a closed range *)
    "2020-03-14\n    18:00 - ???\n\n2020-03-15\n    8:00 - 9:00\n",
    (* two-space record whose last line is a continuation line (four spaces) *)
    "2020-03-15\n  9:00-10:00 Review\n    chapter 2\n",
    (* the open range is followed by entries with several lines *)
    "2020-03-15\n    8:00 - ? open\n    -20m Break?\n        second line ?\n        third\n    1h x\n        y\n",
    (* a record with many ranges *)
    "2020-03-15\n    0:00 - 0:10 r0\n    0:30 - 0:40 r1\n    1:00 - 1:10 r2\n    1:30 - 1:40 r3\n    2:00 - 2:10 r4\n    2:30 - 2:40 r5\n    3:00 - 3:10 r6\n    3:30 - 3:40 r7\n    4:00 - 4:10 r8\n    4:30 - 4:40 r9\n    5:00 - 5:10 r10\n    5:30 - 5:40 r11\n    6:00 - 6:10 r12\n    6:30 - 6:40 r13\n    7:00 - 7:10 r14\n    7:30 - 7:40 r15\n    8:00 - 8:10 r16\n    8:30 - 8:40 r17\n    9:00 - 9:10 r18\n    9:30 - 9:40 r19\n    10:00 - 10:10 r20\n    10:30 - 10:40 r21\n    11:00 - 11:10 r22\n    11:30 - 11:40 r23\n    12:00 - 12:10 r24\n    12:30 - 12:40 r25\n    13:00 - 13:10 r26\n    13:30 - 13:40 r27\n    14:00 - 14:10 r28\n    14:30 - 14:40 r29\n    15:00 - 15:10 r30\n    15:30 - 15:40 r31\n    16:00 - 16:10 r32\n    16:30 - 16:40 r33\n    17:00 - 17:10 r34\n    17:30 - 17:40 r35\n    19:00 - ?\n"
>>
NSeeds == Len(Seeds)
(* the long seed files get the smaller command pool (every kind of command, not every parameter) *)
LongSeeds == {32, 39}

C(op) == [NoCmd EXCEPT !.op = op]
Dsels == {[dsel |-> "none", date |-> ""], [dsel |-> "yesterday", date |-> ""], [dsel |-> "tomorrow", date |-> ""],
          [dsel |-> "today", date |-> ""],
          [dsel |-> "date", date |-> "2020-03-13"], [dsel |-> "date", date |-> "2020/03/18"],
          [dsel |-> "date", date |-> "2020-03-15"]}
WithD(c, d) == [c EXCEPT !.dsel = d.dsel, !.date = d.date]

TrackEntries == {<<"1h">>, <<"-45m lunch">>, <<"13:00 - 14:00 work #x">>, <<"1h30m first", "second line">>,
                 <<"15:00 - ?">>, <<"foo">>, <<" 1h">>, <<"2:00pm-3:00pm">>, <<"0m">>, <<"8:00 - 7:00">>}
Summaries == {<<>>, <<"task #t">>, <<"a", "b c">>}

TrackCmds == {WithD([C("track") EXCEPT !.entry = e], d) : e \in TrackEntries, d \in Dsels}
StartCmds ==
    {WithD([C("start") EXCEPT !.time = t, !.summary = s], d)
        : t \in {"", "14:00", "2:00pm", "<23:00", "08:05"}, s \in Summaries, d \in Dsels}
    \cup {WithD([C("start") EXCEPT !.round = r], d) : r \in {15, 60}, d \in {dd \in Dsels : dd.dsel # "date"}}
    \cup {[C("start") EXCEPT !.resume = TRUE], [C("start") EXCEPT !.nth = 1], [C("start") EXCEPT !.nth = -1],
          [C("start") EXCEPT !.nth = 9], [C("start") EXCEPT !.resume = TRUE, !.summary = <<"x">>],
          [C("start") EXCEPT !.resume = TRUE, !.nth = 1],
          WithD([C("start") EXCEPT !.resume = TRUE], [dsel |-> "tomorrow", date |-> ""]),
          WithD([C("start") EXCEPT !.resume = TRUE, !.time = "9:00"], [dsel |-> "date", date |-> "2020/03/18"])}
StopCmds ==
    {WithD([C("stop") EXCEPT !.time = t, !.summary = s], d)
        : t \in {"", "17:00", "7:00", "0:30>", "5:00pm"}, s \in {<<>>, <<"done">>, <<"done #d", "more">>},
          d \in {dd \in Dsels : dd.date # "2020/03/18"}}
    \cup {[C("stop") EXCEPT !.round = r] : r \in {5, 30}}
SwitchCmds ==
    {WithD([C("switch") EXCEPT !.time = t, !.summary = s], d)
        : t \in {"", "13:00", "7:00"}, s \in Summaries, d \in {dd \in Dsels : dd.dsel \in {"none", "yesterday", "date"} /\ dd.date # "2020/03/18"}}
    \cup {[C("switch") EXCEPT !.resume = TRUE], [C("switch") EXCEPT !.nth = 2], [C("switch") EXCEPT !.nth = -1],
          [C("switch") EXCEPT !.round = 30]}
CreateCmds ==
    {WithD([C("create") EXCEPT !.should = sh, !.summary = s], d)
        : sh \in {"", "8h!", "-30m"}, s \in {<<>>, <<"S">>, <<"S1", "S2 #t">>}, d \in Dsels}
PauseCmds ==
    {[C("pause") EXCEPT !.ticks = tk, !.summary = s, !.notags = nt]
        : tk \in {<<>>, <<30>>, <<59, 60, 61>>, <<60, 125, 3600>>, <<120, 30>>, <<-100>>, <<600, 43200>>},
          s \in {<<>>, <<"break">>}, nt \in BOOLEAN}
    \cup {[C("pause") EXCEPT !.extend = TRUE, !.ticks = tk] : tk \in {<<>>, <<59>>, <<60, 300>>, <<120, 30>>}}
    \cup {[C("pause") EXCEPT !.extend = TRUE, !.summary = <<"x">>]}
    (* the environment appends to the file while the pause sleeps (every iteration re-reads the file) *)
    \cup {[C("pause") EXCEPT !.ticks = tk, !.edits = ed, !.extend = ex]
            : tk \in {<<60, 125, 3600>>, <<30, 45>>}, ex \in BOOLEAN,
              ed \in {<<"2099-01-01\n\t5m ext\n">>, <<"", "2099-01-01\n    1h\n    2h\n", "2099-01-02">>,
                      <<"2099-01-01\r\n  8:00 - ? #ext\r\n", "2099-01-02 (8h!)\n">>}}

LongCmds == {[C("track") EXCEPT !.entry = <<"18:30 - 18:40 r37">>], [C("stop") EXCEPT !.summary = <<"done #d", "more">>],
             [C("pause") EXCEPT !.extend = TRUE, !.ticks = <<60, 300>>], [C("pause") EXCEPT !.ticks = <<60, 125>>, !.edits = <<"2099-01-01\n\t5m ext\n">>],
             WithD(C("create"), [dsel |-> "date", date |-> "2020-03-10"]), [C("switch") EXCEPT !.summary = <<"a", "b c">>]}
AllCmds == TrackCmds \cup StartCmds \cup StopCmds \cup SwitchCmds \cup CreateCmds \cup PauseCmds
(* a smaller pool for histories *)
HistCmds == {[C("track") EXCEPT !.entry = <<"1h">>], [C("track") EXCEPT !.entry = <<"15:00 - ?">>],
             WithD([C("track") EXCEPT !.entry = <<"-45m lunch">>], [dsel |-> "yesterday", date |-> ""]),
             C("start"), [C("start") EXCEPT !.summary = <<"task #t">>], [C("start") EXCEPT !.resume = TRUE],
             [C("start") EXCEPT !.time = "14:00"], WithD(C("start"), [dsel |-> "tomorrow", date |-> ""]),
             C("stop"), [C("stop") EXCEPT !.summary = <<"done">>], [C("stop") EXCEPT !.time = "17:00"],
             C("switch"), [C("switch") EXCEPT !.summary = <<"next">>], [C("switch") EXCEPT !.resume = TRUE],
             C("create"), WithD([C("create") EXCEPT !.should = "8h!"], [dsel |-> "date", date |-> "2020-03-13"]),
             WithD(C("create"), [dsel |-> "tomorrow", date |-> ""]),
             [C("pause") EXCEPT !.ticks = <<60, 125>>], [C("pause") EXCEPT !.extend = TRUE, !.ticks = <<60>>]}

(***************************************************************************)
(* Clock mode (C17): layouts of open ranges around "today", for several     *)
(* kinds of days; seed = 10 * layout + day                                  *)
(***************************************************************************)
(* the last two run in a zone with daylight saving time (Europe/Berlin): a day of 25 hours, and the day *)
(* after one of 23 hours - "yesterday" and "tomorrow" are calendar days, not 24 hours away               *)
Days == <<Ord(2020, 3, 15), Ord(2020, 2, 29), Ord(2021, 3, 1), Ord(2020, 12, 31), Ord(2021, 1, 1), Ord(2020, 10, 25), Ord(2020, 3, 30)>>
ClockZone(s) == IF Mode = "clock" /\ (s % 10) >= 5 THEN "Europe/Berlin" ELSE ""
DayOf(s) == Days[(s % 10) + 1]
D(o) == FormatDate(o, TRUE)
ClockSeed(s) ==
    LET t == DayOf(s)  lay == s \div 10 IN
    CASE lay = 0 -> D(t) \o "\n    0:00 - ?\n"                                            \* open today (from midnight)
      [] lay = 1 -> D(t - 1) \o "\n    0:00 - ?\n"                                        \* open yesterday only
      [] lay = 2 -> D(t - 1) \o "\n    23:00 - ?\n\n" \o D(t) \o "\n    <23:30 - ?\n"   \* both
      [] lay = 3 -> D(t - 1) \o "\n    1h\n\n" \o D(t) \o "\n    1h\n"                  \* records, none open
      [] lay = 4 -> ""                                                                    \* no record at all
      [] lay = 5 -> D(t - 1) \o "\n    8:00 - ?\n\n" \o D(t + 1) \o "\n    <1:00 - ?\n"   \* yesterday and tomorrow open
SeedText(s) == IF Mode = "clock" THEN ClockSeed(s) ELSE Seeds[s]

ClockRoundings == <<0, 5, 10, 12, 15, 20, 30, 60>>
ClockCmds == {[C(op) EXCEPT !.dsel = ds, !.round = r]
                : op \in {"start", "stop", "switch"}, ds \in {"none", "today", "yesterday", "tomorrow"},
                  r \in {ClockRoundings[i] : i \in 1..8}}

(***************************************************************************)
(* Rendering a command as CLI arguments                                     *)
(***************************************************************************)
IntStr(n) == IF n < 0 THEN "-" \o NatStr(0 - n) ELSE NatStr(n)
Esc(t) == IF StartsWith(t, "-") THEN "\\" \o t ELSE t
ToArgs(c) ==
    <<c.op>>
    \o (CASE c.dsel = "today" -> <<"--today">> [] c.dsel = "yesterday" -> <<"--yesterday">>
          [] c.dsel = "tomorrow" -> <<"--tomorrow">> [] c.dsel = "date" -> <<"--date", c.date>> [] OTHER -> <<>>)
    \o (IF c.time # "" THEN <<"--time=" \o c.time>> ELSE <<>>)
    \o (IF c.round # 0 THEN <<"--round", NatStr(c.round) \o "m">> ELSE <<>>)
    \o (IF c.summary # <<>> THEN <<"--summary=" \o JoinStr(c.summary, "\n")>> ELSE <<>>)
    \o (IF c.resume THEN <<"--resume">> ELSE <<>>)
    \o (IF c.nth # 0 THEN <<"--resume-nth=" \o IntStr(c.nth)>> ELSE <<>>)
    \o (IF c.should # "" THEN <<"--should=" \o c.should>> ELSE <<>>)
    \o (IF c.notags THEN <<"--no-tags">> ELSE <<>>)
    \o (IF c.extend THEN <<"--extend">> ELSE <<>>)
    \o (IF c.op = "track" THEN <<Esc(JoinStr(c.entry, "\n"))>> ELSE <<>>)
    \o <<"f.klg">>

Stamp(now, plus) ==      \* now + plus seconds as "YYYY-MM-DDTHH:MM:SS"
    LET total == now.min * 60 + now.sec + plus + 86400
        ord == now.ord - 1 + (total \div 86400)
        s == total % 86400
    IN  FormatDate(ord, TRUE) \o "T" \o Pad2(s \div 3600) \o ":" \o Pad2((s \div 60) % 60) \o ":" \o Pad2(s % 60)
CfgText(cfg) ==
    (IF cfg.datefmt # "" THEN "date_format = " \o cfg.datefmt \o "\n" ELSE "")
    \o (IF cfg.timeconv # "" THEN "time_convention = " \o cfg.timeconv \o "\n" ELSE "")
    \o (IF cfg.rounding # 0 THEN "default_rounding = " \o NatStr(cfg.rounding) \o "m\n" ELSE "")
    \o (IF cfg.should # "" THEN "default_should_total = " \o cfg.should \o "\n" ELSE "")

Step(c, now, cfg, pred, before) ==
    [args |-> ToArgs(c), now |-> Stamp(now, 0), ticks |-> [j \in 1..Len(c.ticks) |-> Stamp(now, c.ticks[j])],
     edits |-> [j \in 1..Len(c.ticks) |-> EditAt(c, j)],
     cmd |-> c, nowv |-> now, cfgv |-> cfg, pred |-> pred, predpre |-> before]
NoFile(s) == SeedText(s) = "<<no such file>>"
CaseOf(s, h) == [kind |-> "cli", files |-> IF NoFile(s) THEN ("other.klg" :> "2020-03-15\n    1h\n") ELSE ("f.klg" :> SeedText(s)), cfg |-> CfgText(h[1].cfgv), parse |-> TRUE, tz |-> ClockZone(s),
                 repeat |-> IF Mode = "clock" THEN 1 ELSE IF Full THEN 3 ELSE 2, cmds |-> h]

(***************************************************************************)
(* Canonical successor of the abstract records under the model (used for    *)
(* the model's own invariants along histories)                              *)
(***************************************************************************)
InsertPos(RR, ord) == LET S == {p \in 1..(Len(RR) + 1) : \A k \in 1..(p - 1) : RR[k].date.ord <= ord} IN
                      CHOOSE p \in S : \A p2 \in S : p2 <= p
InsertRec(RR, p, r) == SubSeq(RR, 1, p - 1) \o <<r>> \o SubSeq(RR, p, Len(RR))
AnyOf(S) == CHOOSE x \in S : TRUE
CloseEntry(e, off, extra) ==
    LET n == Len(e.summary)
        e1 == IF extra = <<>> THEN "" ELSE extra[1]
        lastL == IF e1 = "" THEN e.summary[n] ELSE IF n = 1 /\ e.summary[1] = "" THEN e1 ELSE e.summary[n] \o " " \o e1
    IN  [kind |-> "range", a |-> e.a, b |-> off, canon |-> "",
         summary |-> [e.summary EXCEPT ![n] = lastL] \o (IF extra = <<>> THEN <<>> ELSE Tail(extra))]
Apply(m, RR) ==
    CASE m.kind = "append" ->
            IF m.t # 0 THEN [RR EXCEPT ![m.t].entries = Append(@, AnyOf(m.entries))]
            ELSE InsertRec(RR, InsertPos(RR, m.tord),
                           [date |-> [ord |-> m.tord, dashes |-> TRUE], should |-> m.should, summary |-> <<>>,
                            entries |-> <<AnyOf(m.entries)>>])
      [] m.kind = "create" ->
            InsertRec(RR, InsertPos(RR, m.tord),
                      [date |-> [ord |-> m.tord, dashes |-> TRUE], should |-> m.should, summary |-> m.summary, entries |-> <<>>])
      [] m.kind = "close" -> [RR EXCEPT ![m.t].entries[m.i] = CloseEntry(@, m.off, m.extra)]
      [] m.kind = "switch" -> [RR EXCEPT ![m.t].entries = Append([@ EXCEPT ![m.i] = CloseEntry(@, m.off, <<>>)], AnyOf(m.entries))]
      [] m.kind = "pause" -> [RR EXCEPT ![m.t].entries = Append(@, [kind |-> "dur", a |-> 0 - m.mins, b |-> 0, canon |-> "", summary |-> m.summary])]
      [] m.kind = "extend" -> [RR EXCEPT ![m.t].entries[m.i].a = @ - m.mins]

(***************************************************************************)
(* Behaviour: choose a seed, then extend the history command by command.    *)
(***************************************************************************)
Depth == IF Mode \in {"single", "clock"} THEN 1 ELSE IF Mode = "pairs" THEN 2 ELSE IF Mode = "long" THEN 12 ELSE 3
CmdHash(c) == Len(c.op) + 3 * Len(c.summary) + Len(c.time) + (IF c.resume THEN 5 ELSE 0) + 7 * Len(c.entry)
              + Len(c.ticks) + Len(c.date) + Len(c.should) + (IF c.extend THEN 1 ELSE 0)
Pool(k) == IF Mode = "single" THEN AllCmds ELSE IF Mode = "clock" THEN ClockCmds
           ELSE IF Mode = "triples" /\ ~Full /\ k > 0 THEN {c \in HistCmds : (CmdHash(c) + SeedN + k) % 2 = 0}
           ELSE HistCmds
SeedSet == IF Mode = "single" THEN 1..NSeeds
           ELSE IF Mode = "clock" THEN {10 * lay + d : lay \in 0..5, d \in 0..6}
           ELSE IF Mode = "pairs" THEN {3, 4, 5, 7, 10, 12, 17, 22, 24, 32, 33, 34, 35, 37, 38}
           ELSE IF Mode = "long" THEN {1, 4, 7, 8, 11, 13, 22, 23, 32}
           ELSE {3 + (SeedN % 3), 22}

Data(text) == LET p == ParseDoc(text) IN IF p.ok /\ text # "<<no such file>>" THEN DocData(p) ELSE <<>>

Init == /\ seed \in SeedSet
        /\ hist = <<>>
        /\ file = IF NoFile(seed) THEN "" ELSE SeedText(seed)
        /\ R = Data(SeedText(seed))
        /\ ok = (JudgedLikeConforming(ParseDoc(SeedText(seed)), SeedText(seed)) /\ ~NoFile(seed))
NowAt(k) == [Now0 EXCEPT !.min = @ + 7 * k]       \* the clock advances between the commands of a history
Now2350 == [Now0 EXCEPT !.min = 23 * 60 + 50, !.sec = 0]
Now0002 == [Now0 EXCEPT !.min = 2, !.sec = 59]
CfgS  == [Cfg0 EXCEPT !.datefmt = "YYYY/MM/DD"]
CfgD  == [Cfg0 EXCEPT !.datefmt = "YYYY-MM-DD"]
Cfg12 == [Cfg0 EXCEPT !.timeconv = "12h"]
Cfg24 == [Cfg0 EXCEPT !.timeconv = "24h"]
CfgR  == [Cfg0 EXCEPT !.rounding = 30]
CfgSh == [Cfg0 EXCEPT !.should = "8h!"]
(* clock and configuration variants, one factor at a time *)
ClockPick(minute, c, s) ==    \* quick tier: per minute one rounding (rotating) and, per command, two layouts
    (* thorough tier: every minute x every rounding x every command, with three rotating layouts on a rotating kind of day *)
    IF Full THEN /\ (s \div 10) \in {minute % 6, (minute + 2) % 6, (minute + 4) % 6}
                 /\ (s % 10) = (minute + SeedN) % 7
    ELSE     (/\ c.round = ClockRoundings[((minute + SeedN) % 8) + 1]
             /\ (s \div 10) \in {(minute + SeedN) % 6, (minute + 3 + SeedN) % 6}
             /\ (s % 10) = (minute + SeedN) % 7)
Variants(c, k) ==
    IF Mode = "clock"
    THEN {<<[ord |-> DayOf(seed), min |-> m, sec |-> (m * 7) % 60], IF m % 3 = 1 THEN Cfg12 ELSE Cfg0>>        \* every third minute with the 12-hour clock configured
            : m \in {mm \in 0..1439 : ClockPick(mm, c, seed)}}
    ELSE IF Mode # "single" THEN {<<NowAt(k), Cfg0>>}
    ELSE {<<Now0, Cfg0>>}
         \cup (IF c.op \in {"start", "stop", "switch"} /\ c.time = ""
               THEN {<<Now2350, Cfg0>>, <<Now0002, Cfg0>>, <<Now0, CfgR>>, <<Now2350, CfgR>>} ELSE {})
         \cup (IF c.op \in {"start", "stop", "switch"} /\ c.summary = <<>> THEN {<<Now0, Cfg12>>, <<Now0, Cfg24>>} ELSE {})
         \cup (IF c.op \in {"track", "start", "create"} /\ c.summary = <<>> THEN {<<Now0, CfgS>>, <<Now0, CfgD>>, <<Now0, CfgSh>>} ELSE {})
(* the file evolves by the text-level model KCliText; the abstract records are re-read from it *)
Next == /\ Len(hist) < Depth
        /\ \E c \in (IF Mode = "single" /\ seed \in LongSeeds THEN HistCmds \cup LongCmds ELSE Pool(Len(hist))) : \E v \in Variants(c, Len(hist)) :
              (* quick tier, single commands: a seed-rotated half of the (file, command) pairs; the small pool on every file *)
              /\ ((Mode = "single" /\ ~Full) => ((CmdHash(c) + seed + SeedN) % 2 = 0 \/ c \in HistCmds \/ c.edits # <<>>))
              /\ LET now == v[1]  cfg == v[2]
                     x0 == IF ok THEN ExecText(c, file, now, cfg) ELSE [st |-> "unspec", text |-> file]
                     x == IF x0.st = "ok" THEN [x0 EXCEPT !.text = ExtAppendAll(@, c, Len(c.ticks))] ELSE x0
                 IN  /\ hist' = Append(hist, Step(c, now, cfg, x, file))
                     /\ file' = x.text
                     /\ R' = IF ok THEN Data(x.text) ELSE R
                     /\ ok' = (ok /\ x.st # "unspec")
        /\ UNCHANGED seed

Emit == Len(hist') = Depth =>
            Serialize(ToJson(CaseOf(seed', hist')) \o "\n", Out,
                      [format |-> "TXT", charset |-> "UTF-8",
                       openOptions |-> <<"WRITE", "CREATE", "APPEND">>]).exitValue = 0

(***************************************************************************)
(* The model's own invariants                                               *)
(***************************************************************************)
(* at most one open range per record, in every reachable abstract state *)
OneOpenRange == \A k \in 1..Len(R) : Cardinality({i \in 1..Len(R[k].entries) : R[k].entries[i].kind = "open"}) <= 1
(* ranges are in chronological order *)
RangesOrdered == \A k \in 1..Len(R) : \A i \in 1..Len(R[k].entries) :
                    R[k].entries[i].kind = "range" => R[k].entries[i].a <= R[k].entries[i].b
(* every permitted change is accepted by the model's own effect predicate, and a sorted file stays sorted *)
(* the text-level model refines the record-level model, and satisfies the frame, atomicity and style predicates *)
LastStep == hist'[Len(hist')]
StepOK == [][\/ Len(hist') = Len(hist)
             \/ ~ok
             \/ LET c == LastStep.cmd
                    m == Model(c, R, LastStep.nowv, LastStep.cfgv)
                    x == LastStep.pred
                    PP == ParseDoc(file)
                    (* the command's own effect: the state without what the environment appended meanwhile *)
                    own == IF c.edits = <<>> THEN file' ELSE ExecText(c, file, LastStep.nowv, LastStep.cfgv).text
                    Rown == IF c.edits = <<>> THEN R' ELSE Data(own)
                IN  /\ m.st = "ok" => x.st = "ok" /\ EffectOK(m, R, Rown) /\ (Sorted(R) => Sorted(Rown))
                    /\ m.st = "fail" => x.st = "fail" /\ file' = file
                    /\ x.st = "ok" /\ m.st = "ok" =>
                          /\ FrameOK(c, m, PP, PP.lines, SplitLines(own))
                          /\ StyleOK(c, LastStep.cfgv, m, PP, PP.lines, SplitLines(own))
                          /\ ParseDoc(file').ok
                          /\ file' = ExtAppendAll(own, c, Len(c.ticks))]_vars
FileValid == ok => ParseDoc(file).status # "Violating"
=============================================================================
