----------------------------- MODULE Trace_Parse -----------------------------
(***************************************************************************)
(* Code -> spec for the parser family (C01, C06, C07, C08, C10): every      *)
(* recorded Parse() result is judged against KParse.  IOEnv.KV_RULES        *)
(* selects the property whose rules are evaluated.                          *)
(***************************************************************************)
EXTENDS KParse, Json, IOUtils

VARIABLES l, sh
Trace == ndJsonDeserialize(IOEnv.KV_TRACE)
N     == Len(Trace)
NSh   == 64
Sel   == IOEnv.KV_RULES

Init == l = 0 /\ sh = 0
Next == \/ /\ l = 0 /\ sh = 0
           /\ sh' \in 1..NSh /\ l' = 0
        \/ /\ l = 0 /\ sh > 0 /\ sh <= N
           /\ l' \in {sh + NSh * k : k \in 0..((N - sh) \div NSh)}
           /\ sh' = sh

AllRules == {"C01.Accept", "C01.Reject", "C01.Data",
             "C06.NoPanic", "C06.Shape", "C06.CmdNoPanic",
             "C07.ParEqual",
             "C08.Lossless", "C08.Blocks",
             "C10.NoPanic", "C10.ErrShape", "C10.Order", "C10.FirstLine"}
RuleNames == {r \in AllRules : Sel = "ALL" \/ StartsWith(r, Sel)}

EntryTotal(e) == IF e.kind = "dur" THEN e.a ELSE IF e.kind = "range" THEN e.b - e.a ELSE 0

EntryMatches(oe, e) ==
    /\ oe.kind = e.kind /\ oe.a = e.a /\ oe.b = e.b
    /\ (e.loose \/ oe.canon = e.canon)
    /\ oe.summary = e.summary
    /\ oe.total = EntryTotal(e)
RecMatches(orec, r) ==
    /\ orec.date = FormatDate(r.date.ord, r.date.dashes)
    /\ orec.should = r.should
    /\ orec.summary = r.summary
    /\ Len(orec.entries) = Len(r.entries)
    /\ \A i \in 1..Len(r.entries) : EntryMatches(orec.entries[i], r.entries[i])

BlockMatches(ob, b, ls) ==
    /\ ob.first = b.first - 1
    /\ Len(ob.lines) = b.last - b.first + 1
    /\ \A i \in 1..Len(ob.lines) : ob.lines[i] = <<ls[b.first + i - 1].text, ls[b.first + i - 1].eol>>

Holds(r, ev, P) ==
    LET c == ev.case  o == ev.obs  live == ev.panic = "" IN
    CASE r = "C01.Accept" -> live /\ P.status = "Conforming" => o.ok
      [] r = "C01.Reject" -> live /\ P.status = "Violating" => ~o.ok /\ o.records = <<>> /\ Len(o.errors) >= 1
      [] r = "C01.Data" -> live /\ P.status = "Conforming" /\ o.ok =>
            /\ Len(o.records) = Len(P.recs)
            /\ \A k \in 1..Len(P.recs) : RecMatches(o.records[k], P.recs[k])
      [] r = "C06.NoPanic" -> ev.panic = "" /\ \A i \in 1..Len(o.errors) : o.errors[i].text_panic = ""
      [] r = "C06.Shape" -> live =>
            /\ o.ok => Len(o.blocks) = Len(o.records) /\ o.errors = <<>>
            /\ ~o.ok => o.records = <<>> /\ o.blocks = <<>> /\ Len(o.errors) >= 1
      [] r = "C06.CmdNoPanic" -> live /\ c.kind = "fuzz" =>
            /\ \A i \in 1..Len(o.cmds) : o.cmds[i].panic = ""
            /\ o.render_panic = "" /\ o.json_valid
      [] r = "C07.ParEqual" -> live => \A i \in 1..Len(o.par) : o.par[i].equal
      [] r = "C08.Lossless" -> JoinLines(P.lines) = c.text
      [] r = "C08.Blocks" -> live /\ o.ok =>
            /\ Len(o.blocks) = Len(P.blocks)
            /\ \A k \in 1..Len(P.blocks) : BlockMatches(o.blocks[k], P.blocks[k], P.lines)
      [] r = "C10.NoPanic" -> ev.panic = "" /\ \A i \in 1..Len(o.errors) : o.errors[i].text_panic = ""
      [] r = "C10.ErrShape" -> live /\ ~o.ok =>
            \A i \in 1..Len(o.errors) :
                LET e == o.errors[i] IN
                /\ e.line >= 1 /\ e.line <= Len(P.lines)
                /\ e.text_panic = "" => e.text = P.lines[e.line].text
                /\ e.pos >= 0 /\ e.len >= 0
                /\ e.pos + e.len <= Len(P.lines[e.line].text) + 1
      [] r = "C10.Order" -> live /\ ~o.ok =>
            \A i \in 1..(Len(o.errors) - 1) : o.errors[i].line <= o.errors[i + 1].line
      [] r = "C10.FirstLine" -> live /\ ~o.ok /\ P.status = "Violating" => o.errors[1].line = P.firstBadLine

Failed(ev) == LET P == ParseDoc(ev.case.text) IN {r \in RuleNames : ~Holds(r, ev, P)}
Accept == l > 0 => LET v == Failed(Trace[l]) IN v = {} \/ (PrintT(<<"VIOL", l, v>>) /\ FALSE)
=============================================================================
