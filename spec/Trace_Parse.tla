----------------------------- MODULE Trace_Parse -----------------------------
(***************************************************************************)
(* Code -> spec for the parser family (C01, C06, C07, C08, C10): every      *)
(* recorded Parse() result is judged against KParse.  IOEnv.KV_RULES        *)
(* selects the property whose rules are evaluated.                          *)
(***************************************************************************)
EXTENDS KParse, KPrint, Json, IOUtils

VARIABLES l, sh
Trace == ndJsonDeserialize(IOEnv.KV_TRACE)
N     == Len(Trace)
NSh   == 64
Sel   == IOEnv.KV_RULES

Init == l = 0 /\ sh = 0
Next == \/ /\ l = 0 /\ sh = 0
           /\ sh' \in 1..NSh /\ l' = 0
        \/ /\ l = 0 /\ sh > 0 /\ sh <= N
           /\ l' \in {sh + NSh * k : k \in 0..((N - sh) \div NSh)}
           /\ sh' = sh

AllRules == {"C01.Accept", "C01.Reject", "C01.Data", "C01.BlankReading",
             "C06.NoPanic", "C06.Shape", "C06.CmdNoPanic",
             "C07.NoPanic", "C07.ParEqual", "C07.Orders", "C07.Schedule",
             "C08.Lossless", "C08.Blocks", "C08.NoOp",
             "C09.Accepted", "C09.SameRecords", "C09.FixedPoint", "C09.Layout", "C09.Exact",
             "C10.NoPanic", "C10.ErrShape", "C10.Order", "C10.FirstLine", "C10.Term", "C10.Json", "C10.Multi", "C10.Stdin",
             "C01.Channels", "C09.Channels", "C08.NoOpFile", "C10.ParEqual", "C20.Stdin", "C01.ParEqual", "C09.Cpus", "C20.Cpus"}
RECURSIVE SplitComma(_)
SplitComma(t) == LET i == FindIn(t, 1, {","}) IN
                 IF i > Len(t) THEN {t} ELSE {Take(t, i - 1)} \cup SplitComma(Drop(t, i))
Prefixes == SplitComma(Sel)           \* a comma-separated list of rule name prefixes
RuleNames == {r \in AllRules : Sel = "ALL" \/ \E p \in Prefixes : StartsWith(r, p)}
(* a selection that matches no rule would make the validation vacuous *)
ASSUME RuleNames # {}

EntryTotal(e) == IF e.kind = "dur" THEN e.a ELSE IF e.kind = "range" THEN e.b - e.a ELSE 0

EntryMatches(oe, e) ==
    /\ oe.kind = e.kind /\ oe.a = e.a /\ oe.b = e.b
    /\ (e.loose \/ oe.canon = e.canon)
    /\ oe.summary = e.summary
    /\ oe.total = EntryTotal(e)
RecMatches(orec, r) ==
    /\ orec.date = FormatDate(r.date.ord, r.date.dashes)
    /\ orec.should = r.should
    /\ orec.summary = r.summary
    /\ Len(orec.entries) = Len(r.entries)
    /\ \A i \in 1..Len(r.entries) : EntryMatches(orec.entries[i], r.entries[i])

(* the text with every line that holds only blank characters replaced by an empty line *)
RECURSIVE GlossLines(_)
GlossLines(ls) == IF ls = <<>> THEN ""
                  ELSE (IF BlankSpec(Head(ls).text) THEN "" ELSE Head(ls).text) \o Head(ls).eol \o GlossLines(Tail(ls))
GlossText(ls) == GlossLines(ls)

BlockMatches(ob, b, ls) ==
    /\ ob.first = b.first - 1
    /\ Len(ob.lines) = b.last - b.first + 1
    /\ \A i \in 1..Len(ob.lines) : ob.lines[i] = <<ls[b.first + i - 1].text, ls[b.first + i - 1].eol>>

RECURSIVE RepeatN(_, _)
RepeatN(c, n) == IF n <= 0 THEN "" ELSE c \o RepeatN(c, n - 1)
RECURSIVE TabToSpace(_)
TabToSpace(t) == IF t = "" THEN "" ELSE (IF Ch(t, 1) = TAB THEN SP ELSE Ch(t, 1)) \o TabToSpace(Drop(t, 1))
IsErrHeader(x) == StartsWith(x.text, "[SYNTAX ERROR] in line ")

(* the terminal report shows, for every error in order: line number and file, the quoted line, the carets *)
(* errs: the expected errors in order, each with the file it belongs to *)
TermOKOn(printErr, errs) ==
    LET tl == SplitLines(printErr)
        idx == SelectSeq([i \in 1..Len(tl) |-> i], LAMBDA i : IsErrHeader(tl[i]))
    IN  /\ Len(idx) >= Len(errs)
        /\ \A i \in 1..Len(errs) :
              LET e == errs[i].e  h == idx[i] IN
              /\ tl[h].text = "[SYNTAX ERROR] in line " \o NatStr(e.line)
                              \o (IF errs[i].f = "" THEN "" ELSE " of file " \o errs[i].f)
              /\ h + 2 <= Len(tl)
              /\ tl[h + 1].text = "    " \o TabToSpace(e.text)
              /\ tl[h + 2].text = "    " \o RepeatN(SP, e.pos) \o RepeatN("^", e.len)
JsonErrsOn(jerrs, errs) ==
    /\ Len(jerrs) = Len(errs)
    /\ \A i \in 1..Len(errs) :
          LET e == errs[i].e  j == jerrs[i] IN
          j.line = e.line /\ j.column = e.pos + 1 /\ j.length = e.len /\ j.title = e.title /\ j.file = errs[i].f
OneFile(o) == [i \in 1..Len(o.errors) |-> [e |-> o.errors[i], f |-> o.file]]
(* the same text given twice (as two files, the second one first in alphabetical order): the errors *)
(* of the first argument, then those of the second, each list in line order                         *)
TwoFiles(o) == LET n == Len(o.errors) IN
               [i \in 1..(2 * n) |-> IF i <= n THEN [e |-> o.errors[i], f |-> o.file]
                                      ELSE [e |-> o.errors[i - n], f |-> o.file2]]
TermOK(o) == TermOKOn(o.print_err, OneFile(o))
HasChannels(o) == "stdin_print" \in DOMAIN o

JsonErrOK(o) ==
    /\ o.json_wellformed /\ o.json_pretty_wellformed
    /\ o.json = o.json_pretty
    /\ o.json_records_null /\ ~o.json_errors_null
    /\ JsonErrsOn(o.json.errors, OneFile(o))

(* canonical layout of printed output: LF only, headlines unindented, entries 4 and continuation  *)
(* lines 8 spaces, exactly one empty line between records, one leading and one trailing empty line *)
LayoutOK(out) ==
    LET tl == SplitLines(out) IN
    /\ \A i \in 1..Len(tl) : tl[i].eol = LF
    /\ Len(tl) >= 3 /\ tl[1].text = "" /\ tl[Len(tl)].text = "" /\ tl[2].text # ""
    /\ \A i \in 2..(Len(tl) - 1) :
          LET t == tl[i].text IN
          /\ t = "" => tl[i + 1].text # "" /\ ~IsSpaceOrTab(Ch(tl[i + 1].text, 1))
          /\ t # "" /\ IsSpaceOrTab(Ch(t, 1)) =>
                \/ (StartsWith(t, "    ") /\ Len(t) > 4 /\ ~IsSpaceOrTab(Ch(t, 5)))
                \/ (StartsWith(t, "        ") /\ Len(t) > 8)

Holds(r, ev, P) ==
    LET c == ev.case  o == ev.obs  live == ev.panic = "" IN
    CASE r = "C01.Accept" -> live /\ P.status = "Conforming" => o.ok
      [] r = "C01.Reject" -> live /\ P.status = "Violating" => ~o.ok /\ o.records = <<>> /\ Len(o.errors) >= 1
      [] r = "C01.Data" -> live /\ P.status = "Conforming" /\ o.ok =>
            /\ Len(o.records) = Len(P.recs)
            /\ \A k \in 1..Len(P.recs) : RecMatches(o.records[k], P.recs[k])
      (* a line of blank characters other than space/tab is a blank line by the glossary; the text is Unspecified *)
      (* for acceptance, but if it is accepted the data must be that of the glossary reading                       *)
      [] r = "C01.BlankReading" -> live /\ o.ok /\ P.status = "Unspecified" /\ ZsOnlyLine(P.lines) =>
            LET G == ParseDoc(GlossText(P.lines)) IN
            G.status = "Conforming" =>
                /\ Len(o.records) = Len(G.recs)
                /\ \A k \in 1..Len(G.recs) : RecMatches(o.records[k], G.recs[k])
      [] r = "C06.NoPanic" -> ev.panic = "" /\ \A i \in 1..Len(o.errors) : o.errors[i].text_panic = ""
      [] r = "C06.Shape" -> live =>
            /\ o.ok => Len(o.blocks) = Len(o.records) /\ o.errors = <<>>
            /\ ~o.ok => o.records = <<>> /\ o.blocks = <<>> /\ Len(o.errors) >= 1
      [] r = "C06.CmdNoPanic" -> live /\ c.kind = "fuzz" =>
            /\ \A i \in 1..Len(o.cmds) : o.cmds[i].panic = ""
            /\ o.render_panic = "" /\ o.json_valid
      [] r = "C07.NoPanic" -> ev.panic = ""
      [] r = "C07.ParEqual" -> live /\ c.kind # "parsched" => \A i \in 1..Len(o.par) : o.par[i].equal
      [] r = "C07.Orders" -> live /\ c.kind = "parsched" =>
            o.unequal_orders = <<>> /\ o.bad_arrivals = 0 /\ o.orders >= 1
      [] r = "C07.Schedule" -> live /\ c.kind = "parsched" =>
            \A k \in 1..Len(o.naturals) :
                LET E == o.naturals[k].events
                    pos(kind, i) == {p \in 1..Len(E) : E[p] = <<kind, i>>}
                IN  /\ o.naturals[k].equal
                    /\ Len(E) = 2 * c.n
                    (* a behaviour of KParallel projected on its send / receive steps: every batch is  *)
                    (* handed over exactly once and received exactly once, after it was handed over    *)
                    /\ \A i \in 0..(c.n - 1) :
                          /\ Cardinality(pos("send", i)) = 1 /\ Cardinality(pos("collect", i)) = 1
                          /\ \A p \in pos("send", i) : \A q \in pos("collect", i) : p < q
      [] r = "C08.Lossless" -> JoinLines(P.lines) = c.text
      [] r = "C08.Blocks" -> live /\ o.ok =>
            /\ Len(o.blocks) = Len(P.blocks)
            /\ \A k \in 1..Len(P.blocks) : BlockMatches(o.blocks[k], P.blocks[k], P.lines)
      [] r = "C08.NoOp" -> live /\ c.kind = "view" /\ o.ok /\ o.records # <<>> => o.noop_ran /\ o.noop = c.text
      (* the same through the application context and a real file (read, change nothing, write back), *)
      (* with one and with several CPUs: the bytes on disk and the serialised result are the text      *)
      [] r = "C08.NoOpFile" -> live /\ c.kind = "view" /\ o.ok /\ o.records # <<>> =>
            o.noop_file_ran /\ Len(o.noop_files) = 4 /\ \A i \in 1..Len(o.noop_files) : o.noop_files[i] = c.text
      (* the views do not depend on the number of CPUs *)
      [] r = "C09.Cpus" -> live /\ c.kind = "view" => o.print_par_code = o.print_code /\ o.print_par = o.print
      [] r = "C20.Cpus" -> live /\ c.kind = "view" => o.json_par_sym = o.json_sym
      [] r = "C10.ParEqual" -> live /\ c.kind = "view" => \A i \in 1..Len(o.par) : o.par[i].equal
      (* on a machine with several CPUs klog parses in parallel: the verdict and the data are the same *)
      [] r = "C01.ParEqual" -> live /\ c.kind = "parse" => \A i \in 1..Len(o.par) : o.par[i].equal
      [] r = "C09.Accepted" -> live /\ c.kind = "view" /\ o.ok /\ o.records # <<>> /\ ~LoneCR(P.lines) =>
            o.print_code = 0 /\ o.reparsed.ok
      [] r = "C09.SameRecords" -> live /\ c.kind = "view" /\ o.ok /\ o.records # <<>> /\ ~LoneCR(P.lines) /\ o.reparsed.ok =>
            /\ Len(o.reparsed.records) = Len(o.records)
            /\ \A k \in 1..Len(o.records) :
                  LET a == o.records[k]  b == o.reparsed.records[k] IN
                  /\ a.date = b.date /\ a.should = b.should /\ a.summary = b.summary
                  /\ Len(a.entries) = Len(b.entries)
                  /\ \A i \in 1..Len(a.entries) :
                        LET x == a.entries[i]  y == b.entries[i] IN
                        x.kind = y.kind /\ x.a = y.a /\ x.b = y.b /\ x.canon = y.canon /\ x.summary = y.summary
      [] r = "C09.FixedPoint" -> live /\ c.kind = "view" /\ o.ok /\ o.records # <<>> /\ ~LoneCR(P.lines) => o.print2 = o.print
      [] r = "C09.Layout" -> live /\ c.kind = "view" /\ o.ok /\ o.records # <<>> /\ ~LoneCR(P.lines) => LayoutOK(o.print)
      [] r = "C09.Exact" -> live /\ c.kind = "view" /\ o.ok /\ P.status = "Conforming" /\ P.recs # <<>> =>
            \/ \E k \in 1..Len(P.recs) : \E i \in 1..Len(P.recs[k].entries) : P.recs[k].entries[i].loose
            \/ o.print = LF \o PrintDoc(DocData(P)) \o LF
      [] r = "C10.Term" -> live /\ c.kind = "view" /\ ~o.ok /\ (\A i \in 1..Len(o.errors) : o.errors[i].text_panic = "") =>
            o.print_code # 0 /\ TermOK(o)
      [] r = "C10.Json" -> live /\ c.kind = "view" /\ ~o.ok => o.json_code = 0 /\ JsonErrOK(o)
      [] r = "C10.Multi" -> live /\ c.kind = "view" /\ ~o.ok /\ (\A i \in 1..Len(o.errors) : o.errors[i].text_panic = "") =>
            /\ o.multi_code # 0 /\ TermOKOn(o.multi_err, TwoFiles(o))
            /\ o.json_multi_wellformed /\ o.json_multi_records_null /\ JsonErrsOn(o.json_multi.errors, TwoFiles(o))
      (* the text is the same whichever way it reaches klog: as a file, on standard input, or as one of    *)
      (* several files (whose records and errors come in the order of the arguments).  An empty standard  *)
      (* input means "no input" and is not judged.                                                        *)
      [] r = "C01.Channels" -> live /\ HasChannels(o) /\ c.text # "" =>
            /\ (o.file_print_code = 0) = o.ok /\ (o.stdin_print_code = 0) = o.ok
            /\ o.ok => o.stdin_json = o.file_json
      [] r = "C09.Channels" -> live /\ HasChannels(o) /\ c.text # "" /\ o.ok =>
            /\ o.stdin_print = o.file_print
            /\ o.two_print_code = 0
            /\ o.records # <<>> => /\ o.two_print = Take(o.file_print, Len(o.file_print) - 1) \o o.other_print
                                   /\ o.two_print_rev = Take(o.other_print, Len(o.other_print) - 1) \o o.file_print
      [] r = "C10.Stdin" -> live /\ HasChannels(o) /\ ~o.ok /\ c.text # "" /\ (\A i \in 1..Len(o.errors) : o.errors[i].text_panic = "") =>
            /\ o.stdin_print_code # 0
            /\ TermOKOn(o.stdin_print_err, [i \in 1..Len(o.errors) |-> [e |-> o.errors[i], f |-> ""]])
      (* the JSON document for a text arriving on standard input: the same errors (without a file name) *)
      [] r = "C20.Stdin" -> live /\ c.kind = "view" /\ HasChannels(o) /\ c.text # "" =>
            IF o.ok THEN o.stdin_json = o.file_json
            ELSE /\ o.json_stdin_wellformed /\ o.json_stdin_records_null
                 /\ JsonErrsOn(o.json_stdin.errors, [i \in 1..Len(o.errors) |-> [e |-> o.errors[i], f |-> ""]])
      [] r = "C10.NoPanic" -> ev.panic = "" /\ \A i \in 1..Len(o.errors) : o.errors[i].text_panic = ""
      [] r = "C10.ErrShape" -> live /\ ~o.ok =>
            \A i \in 1..Len(o.errors) :
                LET e == o.errors[i] IN
                /\ e.line >= 1 /\ e.line <= Len(P.lines)
                /\ e.text_panic = "" => e.text = P.lines[e.line].text
                /\ e.pos >= 0 /\ e.len >= 0
                /\ e.pos + e.len <= Len(P.lines[e.line].text) + 1
      [] r = "C10.Order" -> live /\ ~o.ok =>
            \A i \in 1..(Len(o.errors) - 1) : o.errors[i].line <= o.errors[i + 1].line
      [] r = "C10.FirstLine" -> live /\ ~o.ok /\ P.status = "Violating" => o.errors[1].line = P.firstBadLine

Failed(ev) == LET P == ParseDoc(ev.case.text) IN {r \in RuleNames : ~Holds(r, ev, P)}
Accept == l > 0 => LET v == Failed(Trace[l]) IN v = {} \/ (PrintT(<<"VIOL", l, v>>) /\ FALSE)
=============================================================================
