----------------------------- MODULE MC_Chunks -----------------------------
(* all byte strings up to the tier's length x every number of workers *)
EXTENDS KChunks, KText, Json, IOUtils
VARIABLES text, n
Tier == IOEnv.KV_TIER
MaxLen == IF Tier = "thorough" THEN 8 ELSE 6
Alphabet == {"a", " ", LFb, "r", "L", "c", "F"}
RECURSIVE Strings(_)
Strings(k) == IF k = 0 THEN {<<>>} ELSE LET S == Strings(k - 1) IN S \cup {Append(s, b) : s \in {x \in S : Len(x) = k - 1}, b \in Alphabet}
Init == text \in {<<b>> : b \in Alphabet} \cup {<<>>} /\ n = 0
(* grow the text byte by byte (n = 0), then fix a worker count *)
Next == \/ n = 0 /\ Len(text) < MaxLen /\ \E b \in Alphabet : text' = Append(text, b) /\ n' = 0
        \/ n = 0 /\ n' \in 1..(Len(text) + 2) /\ text' = text
Out == IOEnv.KV_OUT
Concrete(b) == CASE b = "a" -> "2" [] b = " " -> " " [] b = LFb -> LF [] b = "r" -> CR
                 [] b = "L" -> SymC3 [] b = "c" -> SymA9 [] b = "F" -> SymFF
RECURSIVE ConcreteText(_)
ConcreteText(t) == IF t = <<>> THEN "" ELSE Concrete(Head(t)) \o ConcreteText(Tail(t))
(* one replay case per text: the real parallel parser with every worker count *)
Emit == n = 0 /\ n' = 1 =>
            Serialize(ToJson([kind |-> "parse", text |-> ConcreteText(text), workers |-> [i \in 1..(Len(text) + 2) |-> i]]) \o "\n", Out,
                      [format |-> "TXT", charset |-> "UTF-8",
                       openOptions |-> <<"WRITE", "CREATE", "APPEND">>]).exitValue = 0
Equivalence == n > 0 => ChunksCoverText(text, n) /\ ParallelEqualsSerial(text, n)
=============================================================================
