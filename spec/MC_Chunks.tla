----------------------------- MODULE MC_Chunks -----------------------------
(* all byte strings up to the tier's length x every number of workers *)
EXTENDS KChunks, KText, Json, IOUtils
VARIABLES text, n
Tier == IOEnv.KV_TIER
MaxLen == IF Tier = "thorough" THEN 7 ELSE 6
Alphabet == {"a", " ", LFb, "r", "L", "c", "F"}
RECURSIVE Strings(_)
Strings(k) == IF k = 0 THEN {<<>>} ELSE LET S == Strings(k - 1) IN S \cup {Append(s, b) : s \in {x \in S : Len(x) = k - 1}, b \in Alphabet}
(* modes "lines" and "crlf": texts built from whole lines of a VALID file (date headlines with LF or CRLF,
   blank lines with LF or CRLF, whitespace-only lines, an unterminated last headline), each abstract byte
   sequence paired with its concrete text, so that the real parsers return blocks for them *)
Mode == IOEnv.KV_MODE
A10 == <<"a", "a", "a", "a", "a", "a", "a", "a", "a", "a">>
U(ab, cs) == [ab |-> ab, cs |-> cs]
LineToks == {U(A10 \o <<LFb>>, "2020-01-01" \o LF), U(A10 \o <<"r", LFb>>, "2020-01-01" \o CRLF),
             U(<<LFb>>, LF), U(<<"r", LFb>>, CRLF), U(<<" ", LFb>>, " " \o LF)}
CrlfToks == {U(A10 \o <<LFb>>, "2020-01-01" \o LF), U(A10 \o <<"r", LFb>>, "2020-01-01" \o CRLF),
             U(<<LFb>>, LF), U(<<"r", LFb>>, CRLF)}
MaxToks == IF Mode = "lines" THEN (IF Tier = "thorough" THEN 6 ELSE 5) ELSE (IF Tier = "thorough" THEN 9 ELSE 7)
(* worker counts: all of them for the byte mode; for the (much longer) line texts the small counts, where
   chunks hold several blocks, and the counts around the text length *)
NSet(t) == IF Mode = "crlf" THEN 2..(IF Tier = "thorough" THEN 8 ELSE 4)
           ELSE IF Mode = "lines" THEN (1..8) \cup {Len(t) \div 2, Len(t) - 1, Len(t), Len(t) + 1, Len(t) + 2}
           ELSE 1..(Len(t) + 2)
Concrete(b) == CASE b = "a" -> "2" [] b = " " -> " " [] b = LFb -> LF [] b = "r" -> CR
                 [] b = "L" -> SymC3 [] b = "c" -> SymA9 [] b = "F" -> SymFF
Units == IF Mode = "lines" THEN LineToks \cup {U(A10, "2020-01-01")}
         ELSE IF Mode = "crlf" THEN CrlfToks ELSE {U(<<b>>, Concrete(b)) : b \in Alphabet}
(* mode "crlf": longer texts, but only the worker counts whose chunk size puts a boundary inside a CRLF *)
SplitsCrlf(t, m) == LET size == CeilDiv(Len(t), m) IN
                    \E k \in 1..m : k * size < Len(t) /\ t[k * size] = "r" /\ t[k * size + 1] = LFb
Interesting(t, m) == Mode # "crlf" \/ SplitsCrlf(t, m)
VARIABLES toks, ctext
Init == text = <<>> /\ n = 0 /\ toks = 0 /\ ctext = ""
(* grow the text unit by unit (n = 0), then fix a worker count *)
Next == \/ /\ n = 0 /\ (IF Mode \in {"lines", "crlf"} THEN toks < MaxToks ELSE Len(text) < MaxLen)
           /\ \E u \in Units : text' = text \o u.ab /\ ctext' = ctext \o u.cs /\ n' = 0 /\ toks' = toks + 1
        \/ /\ n = 0 /\ n' \in {m \in NSet(text) : m >= 1 /\ Interesting(text, m)}
           /\ UNCHANGED <<text, toks, ctext>>
Out == IOEnv.KV_OUT
RECURSIVE SetToSortedSeq(_)
SetToSortedSeq(S) == IF S = {} THEN <<>> ELSE LET m == CHOOSE x \in S : \A y \in S : x <= y IN <<m>> \o SetToSortedSeq(S \ {m})
(* one replay case per text: the real parallel parser with every worker count *)
Emit == n = 0 /\ n' > 0 /\ (Mode = "crlf" \/ n' = (CHOOSE m \in {mm \in NSet(text) : mm >= 1} : \A m2 \in {mm \in NSet(text) : mm >= 1} : m <= m2)) =>
            Serialize(ToJson([kind |-> "parse", text |-> ctext, workers |-> IF Mode = "crlf" THEN <<n'>> ELSE SetToSortedSeq({mm \in NSet(text) : mm >= 1})]) \o "\n", Out,
                      [format |-> "TXT", charset |-> "UTF-8",
                       openOptions |-> <<"WRITE", "CREATE", "APPEND">>]).exitValue = 0
Equivalence == n > 0 => ChunksCoverText(text, n) /\ ParallelEqualsSerial(text, n)
=============================================================================
