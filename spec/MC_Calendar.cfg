INIT Init
NEXT Next
ACTION_CONSTRAINT Emit
INVARIANTS CivilBijection WeekdayCycle PeriodContains PeriodShape PeriodsTile IsoWeekLaws
CHECK_DEADLOCK FALSE
