SPECIFICATION Spec
CONSTANTS N = 3
 StoreByArrival = TRUE
INVARIANTS ByIndex NoSendAfterClose EachOnce
PROPERTY CollectorTerminates
