------------------------------ MODULE KCliText ------------------------------
(***************************************************************************)
(* The mutating commands at the level of the file's text: a tight,          *)
(* predicting model of klog's "minimally invasive" reconciler.  Where the   *)
(* properties leave latitude (which of several exhibited styles, where to   *)
(* put a record in an unsorted file, blank junctions) this model resolves   *)
(* it the way the implementation does (majority vote with first-seen tie    *)
(* break, the scan for the insertion position, ...): DESIGN 3.5.  It is     *)
(* never used for a verdict; it is model-checked against the loose          *)
(* predicates (the text-level model refines the record-level model KCli     *)
(* and satisfies FrameOK / StyleOK), it generates command histories whose   *)
(* files evolve by the model, and the share of real results that differ     *)
(* from its prediction is reported as a drift metric.                       *)
(***************************************************************************)
EXTENDS KReconcile

(* a style: "" / -1 mean "not exhibited"; booleans are encoded "T" / "F" *)
NoStyle == [eol |-> "", indent |-> "", dashes |-> "", h12 |-> "", spaced |-> "", nq |-> -1]
B(b) == IF b THEN "T" ELSE "F"

RECURSIVE LastTimed(_, _, _)
(* h12 / spaced / nq as left by the last range or open-range entry (later entries override earlier ones) *)
LastTimed(es, i, acc) ==
    IF i > Len(es) THEN acc
    ELSE LET e == es[i] IN
         LastTimed(es, i + 1,
                   IF e.kind = "range" THEN [acc EXCEPT !.h12 = B(e.sh12), !.spaced = B(e.spaced)]
                   ELSE IF e.kind = "open" THEN [acc EXCEPT !.h12 = B(e.sh12), !.spaced = B(e.spaced), !.nq = e.nq - 1]
                   ELSE acc)

Determine(PP, k) ==
    LET r == PP.recs[k]  b == PP.blocks[k]
        t == LastTimed(r.entries, 1, NoStyle)
    IN  [eol |-> PP.lines[b.sigFirst].eol, indent |-> r.indent, dashes |-> B(r.date.dashes),
         h12 |-> t.h12, spaced |-> t.spaced, nq |-> t.nq]

(* majority of the exhibited values; on a tie the value that appears first in the file *)
Winner(vals, none, default) ==
    LET ex == SelectSeq(vals, LAMBDA v : v # none)
        count(v) == Cardinality({i \in 1..Len(ex) : ex[i] = v})
        firstPos(v) == CHOOSE i \in 1..Len(ex) : ex[i] = v /\ \A j \in 1..(i - 1) : ex[j] # v
    IN  IF ex = <<>> THEN default
        ELSE LET best == CHOOSE v \in {ex[i] : i \in 1..Len(ex)} :
                            \A w \in {ex[i] : i \in 1..Len(ex)} :
                                count(v) > count(w) \/ (count(v) = count(w) /\ firstPos(v) <= firstPos(w))
             IN  best
Elect(base, PP) ==
    LET n == Len(PP.recs)
        D == [k \in 1..n |-> Determine(PP, k)]
        pick(field, none, default) == IF base[field] # none THEN base[field]
                                      ELSE Winner([k \in 1..n |-> D[k][field]], none, default)
    IN  [eol |-> pick("eol", "", LF), indent |-> pick("indent", "", "    "), dashes |-> pick("dashes", "", "T"),
         h12 |-> pick("h12", "", "F"), spaced |-> pick("spaced", "", "T"), nq |-> pick("nq", -1, 0)]

(* insert new lines [text, level] before 0-based index idx; a preceding line without ending gets the style's *)
NewLine(x, st) == [text |-> Repeat(st.indent, x.level) \o x.text, eol |-> st.eol]
InsertLines(ls, idx, xs, st) ==
    LET fixed == IF idx > 0 /\ ls[idx].eol = "" THEN [ls EXCEPT ![idx].eol = st.eol] ELSE ls
    IN  SubSeq(fixed, 1, idx) \o [i \in 1..Len(xs) |-> NewLine(xs[i], st)] \o SubSeq(fixed, idx + 1, Len(fixed))

X(text, level) == [text |-> text, level |-> level]
EntryTexts(value, summary) ==
    LET first == IF summary = <<>> THEN value
                 ELSE value \o (IF value # "" /\ summary[1] # "" THEN " " ELSE "") \o summary[1]
    IN  <<X(first, 1)>> \o (IF summary = <<>> THEN <<>> ELSE [i \in 1..(Len(summary) - 1) |-> X(summary[i + 1], 2)])

(* a reconciler: the lines, the style, and the 0-based index at which a new entry of the record is inserted *)
AtRecord(PP, t) == [lines |-> PP.lines, style |-> Elect(Determine(PP, t), PP), ptr |-> PP.blocks[t].sigLast]

DateText(cmd, cfg, ord, st) ==
    IF cmd.dsel = "date" THEN FormatDate(ord, ParseDate(cmd.date).dashes)
    ELSE IF cfg.datefmt = "YYYY-MM-DD" THEN FormatDate(ord, TRUE)
    ELSE IF cfg.datefmt = "YYYY/MM/DD" THEN FormatDate(ord, FALSE)
    ELSE FormatDate(ord, st.dashes = "T")
ShouldText(cmd, cfg) == LET s == IF cmd.should # "" THEN cmd.should ELSE cfg.should IN
                        IF s = "" THEN "" ELSE " (" \o FormatMins(ShouldOf(cmd, cfg)) \o "!)"

ForNewRecord(PP, cmd, cfg, ord, withShould, summary) ==
    LET st == Elect(NoStyle, PP)
        R == PP.recs
        n == Len(R)
        head == DateText(cmd, cfg, ord, st) \o (IF withShould THEN ShouldText(cmd, cfg) ELSE "")
        rec == <<X(head, 0)>> \o [i \in 1..Len(summary) |-> X(summary[i], 0)]
    IN  IF n = 0 THEN [lines |-> InsertLines(<<>>, 0, rec, st), style |-> st, ptr |-> 1]
        ELSE IF ord < R[1].date.ord
        THEN [lines |-> InsertLines(PP.lines, 0, rec \o <<X("", 0)>>, st), style |-> st, ptr |-> 1]
        ELSE LET i == CHOOSE k \in 1..n : /\ (k = n \/ (R[k].date.ord <= ord /\ ord < R[k + 1].date.ord))
                                          /\ \A j \in 1..(k - 1) : ~(R[j].date.ord <= ord /\ ord < R[j + 1].date.ord)
                 at == PP.blocks[i].sigLast
             IN  [lines |-> InsertLines(PP.lines, at, <<X("", 0)>> \o rec, st), style |-> st, ptr |-> at + 2]

TimeText(cmd, cfg, off, st) ==
    IF cmd.time # "" THEN FormatTime(off, ParseTime(cmd.time).h12)
    ELSE IF cfg.timeconv = "24h" THEN FormatTime(off, FALSE)
    ELSE IF cfg.timeconv = "12h" THEN FormatTime(off, TRUE)
    ELSE FormatTime(off, st.h12 = "T")

(* replace columns from..to of a line's text *)
ReplaceCols(l, from, to, new) == [l EXCEPT !.text = Take(l.text, from - 1) \o new \o Drop(l.text, to)]

CloseAt(rc, PP, t, i, timeText, extra) ==
    LET b == PP.blocks[t]  e == PP.recs[t].entries[i]
        f == b.sigFirst + e.first - 1
        la == b.sigFirst + e.last - 1
        l1 == [rc.lines EXCEPT ![f] = ReplaceCols(@, e.qFrom, e.qTo, timeText)]
        l2 == IF extra # <<>> /\ extra[1] # "" THEN [l1 EXCEPT ![la].text = @ \o " " \o extra[1]] ELSE l1
        more == IF extra = <<>> THEN <<>> ELSE [j \in 1..(Len(extra) - 1) |-> X(extra[j + 1], 2)]
    IN  [rc EXCEPT !.lines = IF more = <<>> THEN l2 ELSE InsertLines(l2, la, more, rc.style),
                   !.ptr = rc.ptr]

RECURSIVE RepeatQ(_)
RepeatQ(n) == IF n <= 0 THEN "" ELSE "?" \o RepeatQ(n - 1)
OpenText(cmd, cfg, off, st) == TimeText(cmd, cfg, off, st) \o (IF st.spaced = "T" THEN " - " ELSE "-") \o "?" \o RepeatQ(st.nq)

(* the summary a new open range gets (the model's single choice among the permitted ones) *)
PickSummary(m) == LET e == CHOOSE x \in m.entries : TRUE IN e.summary

FirstToken(l) == LET s == SkipIn(l.text, 1, SpTab)  e == FindIn(l.text, s, SpTab) IN [from |-> s, to |-> e - 1]

(***************************************************************************)
(* The predicted file after a command; st = "ok" | "fail" | "unspec"        *)
(***************************************************************************)
ExecText(cmd, text, now, cfg) ==
    LET PP == ParseDoc(text)
        R == DocData(PP)
        m == IF JudgedLikeConforming(PP, text) THEN Model(cmd, R, now, cfg) ELSE [st |-> IF PP.ok THEN "unspec" ELSE "fail"]
        done(rc) == LET out == JoinLines(rc.lines) IN
                    IF ParseDoc(out).ok THEN [st |-> "ok", text |-> out] ELSE [st |-> "fail", text |-> text]
    IN
    IF m.st # "ok" THEN [st |-> m.st, text |-> text]
    ELSE
    CASE cmd.op = "track" ->
            LET rc == IF m.t # 0 THEN AtRecord(PP, m.t) ELSE ForNewRecord(PP, cmd, cfg, m.tord, cfg.should # "", <<>>)
            IN  done([rc EXCEPT !.lines = InsertLines(rc.lines, rc.ptr, EntryTexts("", cmd.entry), rc.style)])
      [] cmd.op = "start" ->
            LET rc == IF m.t # 0 THEN AtRecord(PP, m.t) ELSE ForNewRecord(PP, cmd, cfg, m.tord, cfg.should # "", <<>>)
                e == CHOOSE x \in m.entries : TRUE
                sm == IF cmd.summary # <<>> THEN cmd.summary ELSE IF cmd.resume \/ cmd.nth # 0 THEN e.summary ELSE <<>>
            IN  done([rc EXCEPT !.lines = InsertLines(rc.lines, rc.ptr, EntryTexts(OpenText(cmd, cfg, e.a, rc.style), sm), rc.style)])
      [] cmd.op = "stop" ->
            LET rc == AtRecord(PP, m.t) IN
            done(CloseAt(rc, PP, m.t, m.i, TimeText(cmd, cfg, m.off, rc.style), m.extra))
      [] cmd.op = "switch" ->
            LET rc0 == AtRecord(PP, m.t)
                rc == CloseAt(rc0, PP, m.t, m.i, TimeText(cmd, cfg, m.off, rc0.style), <<>>)
                e == CHOOSE x \in m.entries : TRUE
                sm == IF cmd.summary # <<>> THEN cmd.summary ELSE IF cmd.resume \/ cmd.nth # 0 THEN e.summary ELSE <<>>
            IN  done([rc EXCEPT !.lines = InsertLines(rc.lines, rc.ptr, EntryTexts(OpenText(cmd, cfg, m.off, rc.style), sm), rc.style)])
      [] cmd.op = "create" ->
            done(ForNewRecord(PP, cmd, cfg, m.tord, TRUE, cmd.summary))
      [] cmd.op = "pause" ->
            LET rc == AtRecord(PP, m.t) IN
            IF cmd.extend
            THEN LET b == PP.blocks[m.t]  e == PP.recs[m.t].entries[m.i]
                     f == b.sigFirst + e.first - 1
                     tok == FirstToken(rc.lines[f])
                 IN  IF m.mins = 0 THEN [st |-> "ok", text |-> text]
                     ELSE done([rc EXCEPT !.lines[f] = ReplaceCols(@, tok.from, tok.to, FormatMins(e.a - m.mins))])
            ELSE LET oe == R[m.t].entries[OpenIdx(R[m.t])]
                     tags == JoinStr(TagStrs(TagsOfLines(oe.summary)), " ")
                     base == IF cmd.summary = <<>> THEN <<"">> ELSE cmd.summary
                     withVal == [base EXCEPT ![1] = FormatMins(0 - m.mins) \o (IF base[1] # "" THEN " " ELSE "") \o base[1]]
                     withZero == [base EXCEPT ![1] = "-0m" \o (IF base[1] # "" THEN " " ELSE "") \o base[1]]
                     val == IF m.mins = 0 THEN withZero ELSE withVal
                     n == Len(val)
                     final == IF cmd.notags THEN val ELSE [val EXCEPT ![n] = @ \o " " \o tags]
                 IN  done([rc EXCEPT !.lines = InsertLines(rc.lines, rc.ptr, EntryTexts("", final), rc.style)])
=============================================================================
