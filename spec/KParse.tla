------------------------------- MODULE KParse -------------------------------
(***************************************************************************)
(* Recogniser for the klog file format, as a line machine.                  *)
(*                                                                          *)
(*   ParseDoc(text) = [lines, blocks, recs, ok, errs, status]               *)
(*                                                                          *)
(* Written from Specification.md.  Where the specification is silent the    *)
(* text is classified "Unspecified" (DESIGN 3.4) and no verdict about       *)
(* acceptance is ever based on it.                                          *)
(*                                                                          *)
(* Abstract data: a record is                                               *)
(*   [date |-> [ord, dashes], should |-> minutes (0 = none),                *)
(*    summary |-> Seq(STRING), entries |-> Seq(entry), ... locations]       *)
(* an entry is                                                              *)
(*   [kind |-> "dur" | "range" | "open", a |-> minutes or start offset,     *)
(*    b |-> end offset, canon |-> canonical literal (carries the notation), *)
(*    summary |-> Seq(STRING) (one element per physical line, first may be  *)
(*    ""), first/last |-> block-relative line numbers, ...]                 *)
(***************************************************************************)
EXTENDS KValues

(***************************************************************************)
(* Blocks: [blank lines before the first block] + maximal run of non-blank  *)
(* lines + following blank lines.  Blank here = empty or spaces/tabs only.  *)
(***************************************************************************)
RECURSIVE BlocksFrom(_, _, _)
(* ls: all lines; i: next line index; returns Seq([first, last, sigFirst, sigLast]) *)
BlocksFrom(ls, i, first) ==
    LET n == Len(ls)
        NextNonBlank(j) == CHOOSE k \in j..(n + 1) :
                               /\ (k = n + 1 \/ ~BlankST(ls[k].text))
                               /\ \A m \in j..(k - 1) : BlankST(ls[m].text)
        NextBlank(j) == CHOOSE k \in j..(n + 1) :
                               /\ (k = n + 1 \/ BlankST(ls[k].text))
                               /\ \A m \in j..(k - 1) : ~BlankST(ls[m].text)
        sf == NextNonBlank(i)
    IN  IF sf > n THEN <<>>
        ELSE LET sl == NextBlank(sf) - 1
                 last == NextNonBlank(sl + 1) - 1
             IN  << [first |-> first, last |-> last, sigFirst |-> sf, sigLast |-> sl] >>
                 \o BlocksFrom(ls, last + 1, last + 1)
Blocks(ls) == BlocksFrom(ls, 1, 1)

(***************************************************************************)
(* Headline                                                                 *)
(***************************************************************************)
NoErr == [line |-> 0, rule |-> ""]
HeadResult(ok, rule, date, should, unspec) ==
    [ok |-> ok, rule |-> rule, date |-> date, should |-> should, unspec |-> unspec]
NoDateV == [ord |-> 0, dashes |-> TRUE]

ParseHeadline(s) ==
    IF s = "" \/ IsSpaceOrTab(Ch(s, 1)) THEN HeadResult(FALSE, "headline-indented", NoDateV, 0, FALSE)
    ELSE
    LET e  == FindIn(s, 1, SpTab)                \* end of the date token (exclusive)
        d  == ParseDate(Take(s, e - 1))
        dv == [ord |-> d.ord, dashes |-> d.dashes]
        r  == SkipIn(s, e, SpTab)                \* first non-blank after the date
        sepTab == \E i \in e..(r - 1) : Ch(s, i) = TAB
    IN  IF ~d.ok THEN HeadResult(FALSE, "date", NoDateV, 0, FALSE)
        ELSE IF r > Len(s) THEN HeadResult(TRUE, "", dv, 0, e <= Len(s))     \* trailing blanks: unspecified
        ELSE IF Ch(s, r) # "(" THEN HeadResult(FALSE, "headline-text", dv, 0, FALSE)
        ELSE
        LET c   == FindIn(s, r + 1, {")"})
            in0 == SkipIn(s, r + 1, SpTab)       \* blanks after "(": unspecified
            x   == FindIn(s, in0, {"!"})
        IN  IF c > Len(s) THEN HeadResult(FALSE, "should-total", dv, 0, FALSE)
            ELSE IF in0 >= c THEN HeadResult(FALSE, "should-total", dv, 0, FALSE)
            ELSE IF x >= c THEN HeadResult(FALSE, "should-total", dv, 0, FALSE)
            ELSE
            LET du == ParseDuration(Mid(s, in0, x - 1))
                a  == SkipIn(s, x + 1, SpTab)    \* blanks between "!" and ")": unspecified
                t  == SkipIn(s, c + 1, SpTab)    \* after ")"
            IN  IF du.big THEN HeadResult(TRUE, "", dv, 0, TRUE)
                ELSE IF ~du.ok THEN HeadResult(FALSE, "should-total", dv, 0, FALSE)
                ELSE IF a # c THEN HeadResult(FALSE, "should-total", dv, 0, FALSE)
                ELSE IF t <= Len(s) THEN HeadResult(FALSE, "headline-text", dv, 0, FALSE)
                ELSE HeadResult(TRUE, "", dv, du.mins,
                                sepTab \/ in0 # r + 1 \/ a # x + 1 \/ c < Len(s))

(***************************************************************************)
(* Entry value at the beginning of string s (the line without its           *)
(* indentation).  Returns the value and the position after it.              *)
(***************************************************************************)
NoVal == [ok |-> FALSE, rule |-> "entry", kind |-> "", a |-> 0, b |-> 0, canon |-> "", end |-> 0,
          qFrom |-> 0, qTo |-> 0, unspec |-> FALSE, loose |-> FALSE,
          sh12 |-> FALSE, eh12 |-> FALSE, spaced |-> FALSE, nq |-> 0, tFrom |-> 0, tTo |-> 0]

ParseValue(s) ==
    LET te  == FindIn(s, 1, SpTab)               \* end of first token (exclusive)
        tok == Take(s, te - 1)
        du  == ParseDuration(tok)
    IN  IF du.ok
        THEN [NoVal EXCEPT !.ok = TRUE, !.rule = "", !.kind = "dur", !.a = du.mins,
                           !.canon = FormatDuration(du), !.end = te]
        ELSE IF du.big THEN [NoVal EXCEPT !.ok = TRUE, !.rule = "", !.kind = "dur", !.unspec = TRUE, !.end = te]
        ELSE
        LET se == FindIn(s, 1, {"-", SP})        \* end of start-time candidate (exclusive)
            st == ParseTime(Take(s, se - 1))
            d0 == SkipIn(s, se, {SP})            \* position of the dash
            spaced == d0 > se
            a0 == SkipIn(s, d0 + 1, {SP})        \* first char after the dash and its spaces
            sp == IF spaced THEN " - " ELSE "-"
            (* the notation is exactly reproducible only for "a-b" and "a - b" *)
            loose == ~((d0 = se /\ a0 = d0 + 1) \/ (d0 = se + 1 /\ a0 = d0 + 2))
        IN  IF se = 1 \/ ~st.ok THEN NoVal
            ELSE IF d0 > Len(s) \/ Ch(s, d0) # "-" THEN NoVal
            ELSE IF a0 > Len(s) THEN NoVal
            ELSE IF Ch(s, a0) = "?"
                 THEN LET qe == FindIn(s, a0, SpTab)          \* end of placeholder token (exclusive)
                          q  == Mid(s, a0, qe - 1)
                      IN  IF \E i \in 1..Len(q) : Ch(q, i) # "?" THEN NoVal
                          ELSE [NoVal EXCEPT !.ok = TRUE, !.rule = "", !.kind = "open", !.a = st.off,
                                             !.canon = FormatTime(st.off, st.h12) \o sp \o q,
                                             !.end = qe, !.qFrom = a0, !.qTo = qe - 1, !.loose = loose,
                                             !.sh12 = st.h12, !.spaced = spaced, !.nq = Len(q)]
                 ELSE LET ee == FindIn(s, a0, SpTab)
                          et == ParseTime(Mid(s, a0, ee - 1))
                      IN  IF ~et.ok THEN NoVal
                          ELSE IF et.off < st.off THEN [NoVal EXCEPT !.rule = "range-order"]
                          ELSE [NoVal EXCEPT !.ok = TRUE, !.rule = "", !.kind = "range", !.a = st.off, !.b = et.off,
                                             !.canon = FormatTime(st.off, st.h12) \o sp \o FormatTime(et.off, et.h12),
                                             !.end = ee, !.loose = loose, !.sh12 = st.h12, !.eh12 = et.h12,
                                             !.spaced = spaced, !.tFrom = a0, !.tTo = ee - 1]

IndentOf(s) == IF StartsWith(s, "    ") THEN "    " ELSE IF StartsWith(s, "   ") THEN "   "
               ELSE IF StartsWith(s, "  ") THEN "  " ELSE IF StartsWith(s, TAB) THEN TAB ELSE ""

ContainsNonBlank(s) == \E i \in 1..Len(s) : ~IsBlankChar(Ch(s, i))

(***************************************************************************)
(* One block -> record.  ls: the block's significant lines (texts).         *)
(* Line numbers in the result are relative to the significant run (1 = the  *)
(* headline).  err.line = first line at which the block stops conforming.   *)
(***************************************************************************)
RECURSIVE EntriesFrom(_, _, _, _, _)
(* returns [entries, err, unspec]; i = next line, ind = record indentation *)
EntriesFrom(ls, i, ind, acc, hasOpen) ==
    IF i > Len(ls) THEN [entries |-> acc, err |-> NoErr, unspec |-> FALSE]
    ELSE
    LET s == ls[i] IN
    IF ~StartsWith(s, ind) \/ (Len(s) > Len(ind) /\ IsSpaceOrTab(Ch(s, Len(ind) + 1))) \/ Len(s) = Len(ind)
    THEN [entries |-> acc, err |-> [line |-> i, rule |-> "indentation"], unspec |-> FALSE]
    ELSE
    LET body == Drop(s, Len(ind))
        v    == ParseValue(body)
    IN  IF ~v.ok THEN [entries |-> acc, err |-> [line |-> i, rule |-> v.rule], unspec |-> FALSE]
        ELSE
        LET hasSep == v.end <= Len(body)
            sum1   == IF hasSep THEN Drop(body, v.end) ELSE ""
            sepTab == hasSep /\ Ch(body, v.end) = TAB
            ind2   == ind \o ind
            (* continuation lines *)
            lastC  == CHOOSE k \in i..Len(ls) :
                          /\ \A m \in (i + 1)..k : StartsWith(ls[m], ind2)
                          /\ (k = Len(ls) \/ ~StartsWith(ls[k + 1], ind2))
            badC   == {m \in (i + 1)..lastC : ~ContainsNonBlank(Drop(ls[m], Len(ind2)))}
            conts  == [m \in 1..(lastC - i) |-> Drop(ls[i + m], Len(ind2))]
            e      == [kind |-> v.kind, a |-> v.a, b |-> v.b, canon |-> v.canon,
                       summary |-> <<sum1>> \o conts, first |-> i, last |-> lastC,
                       valFrom |-> Len(ind) + 1, valTo |-> Len(ind) + v.end - 1,
                       qFrom |-> IF v.qFrom = 0 THEN 0 ELSE Len(ind) + v.qFrom,
                       qTo |-> IF v.qTo = 0 THEN 0 ELSE Len(ind) + v.qTo,
                       loose |-> v.loose, sh12 |-> v.sh12, eh12 |-> v.eh12, spaced |-> v.spaced, nq |-> v.nq]
        IN  IF v.kind = "open" /\ hasOpen
            THEN [entries |-> acc, err |-> [line |-> i, rule |-> "second-open-range"], unspec |-> FALSE]
            ELSE IF badC # {}
            THEN [entries |-> acc, err |-> [line |-> CHOOSE m \in badC : \A m2 \in badC : m <= m2,
                                            rule |-> "entry-summary-blank"], unspec |-> FALSE]
            ELSE LET rest == EntriesFrom(ls, lastC + 1, ind, Append(acc, e), hasOpen \/ v.kind = "open")
                 IN  [rest EXCEPT !.unspec = @ \/ sepTab \/ v.unspec]

RECURSIVE SubSeqTexts(_, _, _)
SubSeqTexts(ls, i, j) == IF i > j THEN <<>> ELSE <<ls[i].text>> \o SubSeqTexts(ls, i + 1, j)

ParseRecord(ls) ==
    LET h == ParseHeadline(ls[1])
        n == Len(ls)
        (* first line after the headline that starts with an indentation sequence *)
        fi == CHOOSE k \in 2..(n + 1) : /\ (k = n + 1 \/ IndentOf(ls[k]) # "")
                                        /\ \A m \in 2..(k - 1) : IndentOf(ls[m]) = ""
        badSum == {m \in 2..(fi - 1) : ls[m] = "" \/ IsBlankChar(Ch(ls[m], 1))}
        summary == [m \in 1..(fi - 2) |-> ls[m + 1]]
        ind == IF fi <= n THEN IndentOf(ls[fi]) ELSE ""
        es == IF fi <= n THEN EntriesFrom(ls, fi, ind, <<>>, FALSE)
              ELSE [entries |-> <<>>, err |-> NoErr, unspec |-> FALSE]
        err == IF ~h.ok THEN [line |-> 1, rule |-> h.rule]
               ELSE IF badSum # {} THEN [line |-> CHOOSE m \in badSum : \A m2 \in badSum : m <= m2,
                                         rule |-> "summary-blank-start"]
               ELSE es.err
    IN  [ok |-> err.line = 0, err |-> err, unspec |-> h.unspec \/ es.unspec,
         date |-> h.date, should |-> h.should, summary |-> summary, entries |-> es.entries,
         indent |-> ind, sumLast |-> fi - 1]

(***************************************************************************)
(* Document                                                                 *)
(***************************************************************************)
(* features the specification does not settle, visible on the raw text *)
PUA(c) == c \in PUASyms
LoneCR(ls) == \E i \in 1..Len(ls) : \E j \in 1..Len(ls[i].text) : Ch(ls[i].text, j) = CR
ZsOnlyLine(ls) == \E i \in 1..Len(ls) : ls[i].text # "" /\ ~BlankST(ls[i].text) /\ BlankSpec(ls[i].text)
HasPUA(ls) == \E i \in 1..Len(ls) : \E j \in 1..Len(ls[i].text) : PUA(Ch(ls[i].text, j))

(* the records of all blocks, as a concrete tuple (each block is parsed exactly once) *)
RECURSIVE ParseBlocks(_, _, _)
ParseBlocks(ls, bs, k) ==
    IF k > Len(bs) THEN <<>>
    ELSE <<ParseRecord(SubSeqTexts(ls, bs[k].sigFirst, bs[k].sigLast))>> \o ParseBlocks(ls, bs, k + 1)

ParseDoc(text) ==
    LET ls == SplitLines(text)
        bs == Blocks(ls)
        recs == ParseBlocks(ls, bs, 1)
        bad == {k \in 1..Len(bs) : ~recs[k].ok}
        firstBad == IF bad = {} THEN 0 ELSE CHOOSE k \in bad : \A k2 \in bad : k <= k2
        unspec == LoneCR(ls) \/ ZsOnlyLine(ls) \/ HasPUA(ls)
                  \/ \E k \in 1..Len(bs) : recs[k].unspec /\ (firstBad = 0 \/ k <= firstBad)
    IN  [lines |-> ls, blocks |-> bs, recs |-> recs, ok |-> bad = {},
         firstBadLine |-> IF firstBad = 0 THEN 0 ELSE bs[firstBad].sigFirst + recs[firstBad].err.line - 1,
         firstRule |-> IF firstBad = 0 THEN "" ELSE recs[firstBad].err.rule,
         status |-> IF unspec THEN "Unspecified" ELSE IF bad = {} THEN "Conforming" ELSE "Violating"]

(* projection of a parsed record to plain data (what the file denotes) *)
EntryData(e) == [kind |-> e.kind, a |-> e.a, b |-> e.b, canon |-> e.canon, summary |-> e.summary]
RecData(r) == [date |-> r.date, should |-> r.should, summary |-> r.summary,
               entries |-> [i \in 1..Len(r.entries) |-> EntryData(r.entries[i])]]
DocData(p) == [k \in 1..Len(p.recs) |-> RecData(p.recs[k])]
(***************************************************************************)
(* For the commands that change a file (C03, C04, C05, C11) the question is *)
(* not whether the specification settles that the file is valid but what    *)
(* happens to it: a file whose only unsettled feature is blanks at the end  *)
(* of headlines (which klog accepts and which change neither date nor       *)
(* should-total) is judged like a conforming one.                           *)
(***************************************************************************)
RECURSIVE RTrimBlanks(_)
RTrimBlanks(t) == IF t # "" /\ IsSpaceOrTab(Ch(t, Len(t))) THEN RTrimBlanks(Take(t, Len(t) - 1)) ELSE t
StripHeadBlanks(text) ==
    LET ls == SplitLines(text) IN
    JoinLines([i \in 1..Len(ls) |-> IF ls[i].text # "" /\ IsDigit(Ch(ls[i].text, 1)) THEN [ls[i] EXCEPT !.text = RTrimBlanks(@)] ELSE ls[i]])
JudgedLikeConforming(P, text) ==
    \/ P.status = "Conforming"
    \/ /\ P.status = "Unspecified" /\ ~HasPUA(P.lines) /\ ~LoneCR(P.lines) /\ ~ZsOnlyLine(P.lines)
       /\ LET Q == ParseDoc(StripHeadBlanks(text)) IN Q.status = "Conforming" /\ DocData(Q) = DocData(P)
=============================================================================
