------------------------------ MODULE KGrammar ------------------------------
(***************************************************************************)
(* Generator for the klog file format: abstract documents + layout choices  *)
(* are rendered to text, together with the data they denote (no parsing is  *)
(* involved, so the meaning is independent of any parser), and rule-         *)
(* violating edits ("mutations") tagged with the line at which the text     *)
(* stops conforming.  Literal pools carry hand-written denotations.         *)
(* Written from Specification.md and the statement of property C01.         *)
(***************************************************************************)
EXTENDS KValues

(***************************************************************************)
(* Pools.  Each literal comes with the value it denotes and its canonical   *)
(* spelling (which carries the notation that must survive printing).        *)
(***************************************************************************)
H(text, y, m, d, dashes, should) ==
    [text |-> text, date |-> [ord |-> Ord(y, m, d), dashes |-> dashes], should |-> should]
HeadPool == <<
    H("2020-01-01", 2020, 1, 1, TRUE, 0),
    H("2020/01/01", 2020, 1, 1, FALSE, 0),
    H("0000-01-01", 0, 1, 1, TRUE, 0),
    H("9999/12/31", 9999, 12, 31, FALSE, 0),
    H("2024-02-29", 2024, 2, 29, TRUE, 0),
    H("2000-02-29", 2000, 2, 29, TRUE, 0),
    H("1900-02-28", 1900, 2, 28, TRUE, 0),
    H("2020-01-01 (8h!)", 2020, 1, 1, TRUE, 480),
    H("2020-01-01  (8h30m!)", 2020, 1, 1, TRUE, 510),
    H("2020/12/31 (-2h!)", 2020, 12, 31, FALSE, -120),
    H("2020-01-01 (0m!)", 2020, 1, 1, TRUE, 0),
    H("2020-01-01 (+45m!)", 2020, 1, 1, TRUE, 45),
    H("2020-01-01 (90m!)", 2020, 1, 1, TRUE, 90),
    H("2019-12-30 (120h!)", 2019, 12, 30, TRUE, 7200),
    H("2021-06-15 (7h59m!)", 2021, 6, 15, TRUE, 479)
>>

V(lit, kind, a, b, canon) == [lit |-> lit, kind |-> kind, a |-> a, b |-> b, canon |-> canon, loose |-> FALSE]
VL(lit, kind, a, b, canon) == [lit |-> lit, kind |-> kind, a |-> a, b |-> b, canon |-> canon, loose |-> TRUE]
ValuePool == <<
    V("1h", "dur", 60, 0, "1h"),
    V("30m", "dur", 30, 0, "30m"),
    V("1h30m", "dur", 90, 0, "1h30m"),
    V("90m", "dur", 90, 0, "1h30m"),
    V("-45m", "dur", -45, 0, "-45m"),
    V("+2h", "dur", 120, 0, "+2h"),
    V("0m", "dur", 0, 0, "0m"),
    V("-0m", "dur", 0, 0, "-0m"),
    V("+0h", "dur", 0, 0, "+0m"),
    V("0h0m", "dur", 0, 0, "0m"),
    V("01h05m", "dur", 65, 0, "1h5m"),
    V("120h", "dur", 7200, 0, "120h"),
    V("-1h59m", "dur", -119, 0, "-1h59m"),
    V("8:00 - 9:00", "range", 480, 540, "8:00 - 9:00"),
    V("8:00-9:00", "range", 480, 540, "8:00-9:00"),
    V("08:00 - 09:05", "range", 480, 545, "8:00 - 9:05"),
    V("8:00am - 1:15pm", "range", 480, 795, "8:00am - 1:15pm"),
    V("12:00am-12:00pm", "range", 0, 720, "12:00am-12:00pm"),
    V("12:30pm - 11:59pm", "range", 750, 1439, "12:30pm - 11:59pm"),
    V("<23:00 - 6:00", "range", -60, 360, "<23:00 - 6:00"),
    V("22:00 - 1:00>", "range", 1320, 1500, "22:00 - 1:00>"),
    V("<22:00 - <23:00", "range", -120, -60, "<22:00 - <23:00"),
    V("0:00> - 0:30>", "range", 1440, 1470, "0:00> - 0:30>"),
    V("<0:00 - 23:59>", "range", -1440, 2879, "<0:00 - 23:59>"),
    V("23:00 - 24:00", "range", 1380, 1440, "23:00 - 0:00>"),
    V("<24:00 - 0:00", "range", 0, 0, "0:00 - 0:00"),
    V("9:00 - 9:00", "range", 540, 540, "9:00 - 9:00"),
    V("<11:00pm-1:00am", "range", -60, 60, "<11:00pm-1:00am"),
    VL("8:00  -  9:00", "range", 480, 540, "8:00 - 9:00"),
    VL("8:00 -9:00", "range", 480, 540, "8:00 - 9:00"),
    VL("8:00- 9:00", "range", 480, 540, "8:00-9:00"),
    V("9:00 - ?", "open", 540, 0, "9:00 - ?"),
    V("9:00-?", "open", 540, 0, "9:00-?"),
    V("9:00 - ???", "open", 540, 0, "9:00 - ???"),
    V("<23:30 - ?", "open", -30, 0, "<23:30 - ?"),
    V("4:00pm - ?", "open", 960, 0, "4:00pm - ?"),
    V("09:00-??", "open", 540, 0, "9:00-??"),
    VL("9:00 -?", "open", 540, 0, "9:00 - ?"),
    (* each time keeps its own clock notation *)
    V("8:30 - 1:15pm", "range", 510, 795, "8:30 - 1:15pm"),
    V("2:00pm-18:45", "range", 840, 1125, "2:00pm-18:45"),
    V("<11:00pm - 0:30", "range", -60, 30, "<11:00pm - 0:30")
>>

(* entry summaries: sep = text between value and first summary line ("" = none) *)
S(sep, lines) == [sep |-> sep, lines |-> lines]
SumPool == <<
    S("", <<"">>),
    S(" ", <<"work">>),
    S(" ", <<"">>),                                   \* trailing space after the value
    S(" ", <<" indented text">>),
    S(" ", <<"Meeting #team=alpha with #Boss">>),
    S(" ", <<"first", "second line", "third #x">>),
    S("", <<"", "starts on the next line">>),
    S(" ", <<"a", "  extra indented", "8:00 - 9:00">>),
    S(" ", <<"日本語 ä ß Σ">>),
    S(" ", <<"1h">>),                                 \* looks like a value
    S(" ", <<"- ?">>),
    S(" ", <<"stray carriage return" \o CR, "and" \o CR \o CR>>),   \* CR inside the text (before a CRLF ending)
    S(" ", <<"caf" \o SymFF>>),                       \* a Latin-1 byte: invalid UTF-8 (opaque symbol)
    S(" ", <<"x" \o SymE4 \o SymB8, SymFF \o " y " \o SymNUL>>),  \* truncated multi-byte sequence, NUL
    S(" ", <<"Lunch  ">>),                            \* blanks at the end of the text belong to it
    S(" ", <<"two", "lines" \o TAB>>),
    S(" ", <<"nbsp" \o NBSP>>),
    S(" ", <<"replacement " \o RCHAR \o " character", "and " \o RCHAR \o " again">>)    \* a literal U+FFFD is ordinary text
>>

RecSumPool == <<
    <<>>,
    <<"Summary">>,
    <<"Line 1 100%", "Line 2 #tag %s">>,
    <<"8h">>,
    <<"日 ä ß #読む">>,
    <<"#a #b=c #d=\"e f\" text">>
>>

(***************************************************************************)
(* Abstract documents                                                       *)
(***************************************************************************)
Entry(v, s) == [v |-> v, s |-> s]
Rec(head, rsum, entries, ind, eol) == [head |-> head, rsum |-> rsum, entries |-> entries, ind |-> ind, eol |-> eol]
(* lead: blank lines before the first record; seps[k]: blank lines after record k;  *)
(* finalNL: whether the very last line has an ending                                *)
Doc(lead, recs, seps, finalNL) == [lead |-> lead, recs |-> recs, seps |-> seps, finalNL |-> finalNL]

L(text, eol, k, rec) == [text |-> text, eol |-> eol, k |-> k, rec |-> rec]

RECURSIVE EntryLines(_, _, _, _)
EntryLines(es, i, r, ri) ==
    IF i > Len(es) THEN <<>>
    ELSE LET e == es[i]
             firstLine == r.ind \o e.v.lit \o e.s.sep \o e.s.lines[1]
             conts == [m \in 1..(Len(e.s.lines) - 1) |-> L(r.ind \o r.ind \o e.s.lines[m + 1], r.eol, "cont", ri)]
         IN  <<L(firstLine, r.eol, "entry", ri)>> \o conts \o EntryLines(es, i + 1, r, ri)

RecLines(r, ri) ==
    <<L(r.head.text, r.eol, "head", ri)>>
    \o [m \in 1..Len(r.rsum) |-> L(r.rsum[m], r.eol, "rsum", ri)]
    \o EntryLines(r.entries, 1, r, ri)

BlankLines(bs, eol, ri) == [m \in 1..Len(bs) |-> L(bs[m], eol, "blank", ri)]

RECURSIVE DocLinesFrom(_, _)
DocLinesFrom(d, i) ==
    IF i > Len(d.recs) THEN <<>>
    ELSE RecLines(d.recs[i], i) \o BlankLines(d.seps[i], d.recs[i].eol, i) \o DocLinesFrom(d, i + 1)

DocLines(d) ==
    LET eol1 == IF d.recs = <<>> THEN LF ELSE d.recs[1].eol
        all == BlankLines(d.lead, eol1, 0) \o DocLinesFrom(d, 1)
    IN  IF d.finalNL \/ all = <<>> THEN all
        ELSE [all EXCEPT ![Len(all)].eol = ""]

RECURSIVE JoinL(_)
JoinL(ls) == IF ls = <<>> THEN "" ELSE Head(ls).text \o Head(ls).eol \o JoinL(Tail(ls))
Render(d) == JoinL(DocLines(d))

(* what the document denotes *)
DenoteEntry(e) == [kind |-> e.v.kind, a |-> e.v.a, b |-> e.v.b, canon |-> e.v.canon, summary |-> e.s.lines]
DenoteRec(r) == [date |-> r.head.date, should |-> r.head.should, summary |-> r.rsum,
                 entries |-> [i \in 1..Len(r.entries) |-> DenoteEntry(r.entries[i])]]
Denote(d) == [k \in 1..Len(d.recs) |-> DenoteRec(d.recs[k])]

NumOpen(r) == Cardinality({i \in 1..Len(r.entries) : r.entries[i].v.kind = "open"})
(* a document is well-formed (conforming) if every record has at most one open range, records are   *)
(* separated by at least one blank line, and a record without final newline has no blank lines after *)
WellFormed(d) ==
    /\ \A k \in 1..Len(d.recs) : NumOpen(d.recs[k]) <= 1
    /\ \A k \in 1..(Len(d.recs) - 1) : Len(d.seps[k]) >= 1
RECURSIVE AnyPUA(_)
AnyPUA(t) == t # "" /\ (Ch(t, 1) \in PUASyms \/ AnyPUA(Drop(t, 1)))
RECURSIVE AnyCR(_)
AnyCR(t) == t # "" /\ (Ch(t, 1) = CR \/ AnyCR(Drop(t, 1)))
HasOpaque(d) == \E k \in 1..Len(d.recs) : \E i \in 1..Len(d.recs[k].entries) :
                   \E j \in 1..Len(d.recs[k].entries[i].s.lines) :
                       AnyPUA(d.recs[k].entries[i].s.lines[j]) \/ AnyCR(d.recs[k].entries[i].s.lines[j])
(* a CR at the end of a line's text followed by an LF ending would read as a CRLF ending: not generated *)
CRBeforeLF(d) == \E k \in 1..Len(d.recs) : d.recs[k].eol = LF /\ \E i \in 1..Len(d.recs[k].entries) :
                    \E j \in 1..Len(d.recs[k].entries[i].s.lines) : EndsWith(d.recs[k].entries[i].s.lines[j], CR)
HasLoose(d) == \E k \in 1..Len(d.recs) : \E i \in 1..Len(d.recs[k].entries) : d.recs[k].entries[i].v.loose

(***************************************************************************)
(* Mutations: rule-violating edits of the rendered lines.  Each yields      *)
(* [lines, line, rule]: the new lines and the first line that no longer     *)
(* conforms.                                                                *)
(***************************************************************************)
BadDates == <<"2020-13-01", "2020-02-30", "2021-02-29", "2020-1-01", "20200101", "2020-01/01", "abcd-01-01",
              "2020-01-32", "2020-00-10", "2020.01.01", "1900-02-29", "2020-01-1", "02020-01-01", "2020-01-00">>
BadShoulds == <<"(8h)", "(8h!", "8h!)", "(!)", "()", "(8x!)", "(8h!!)", "(8h! foo)", "(8h!)x", "(8h!) x",
                "foo", "8h", "(8h!) (8h!)", "(1h60m!)", "(8:00!)">>
BadValues == <<"8:60 - 9:00", "25:00 - 26:00", "8:00 - 24:01", "9:00 - 8:00", "8:00 - 7:59", "0:00 - <23:00",
               "8:00 - ?>", "8:00 - <?", "8:00 -- 9:00", "8:00 9:00", "8:00 -", "- 9:00", "1h60m", "h",
               "8.5h", "8:00am - 13:00pm", "1x", "+", "8:00 - 9:00>>", "8:00> - 8:00", "24:00> - ?",
               "8:00 - ?x", "0:00am - 1:00am", "8:0 - 9:00", "8:00 - 9", "?", "? - 9:00", "8:00\t- 9:00",
               "8h!", "1m1h", "--1h", "12:00pm - 12:00am",
               "8:60 - 9:00 50% done", "1x 20%% of %d %",
               (* only U+0020 may surround the dash *)
               "8:00 -\t9:00", "8:00-\t9:00", "8:00 \t- 9:00", "8:00 - \t9:00", "14:00 -\t?", "14:00\t-?",
               "8:00 -" \o NBSP \o "9:00", "8:00" \o NBSP \o "- 9:00", "8:00 -" \o NBSP \o "?",
               (* only space or tab ends a value; other blank characters belong to the token *)
               "1h" \o IDSP \o "text", "8:00 - 9:00" \o NBSP \o "work", "8:00 - ?" \o NBSP \o "work", "-30m" \o NBSP>>
BadValueRule(v) == IF v \in {"9:00 - 8:00", "8:00 - 7:59", "0:00 - <23:00", "8:00> - 8:00", "12:00pm - 12:00am"}
                   THEN "range-order" ELSE "entry"

ReplaceAt(ls, i, t) == [ls EXCEPT ![i].text = t]
InsertAt(ls, i, l) == SubSeq(ls, 1, i - 1) \o <<l>> \o SubSeq(ls, i, Len(ls))     \* l becomes line i

(* date token / rest of a headline text *)
HeadRest(t) == LET e == FindIn(t, 1, SpTab) IN Drop(t, e - 1)

Mut(ls, line, rule) == [lines |-> ls, line |-> line, rule |-> rule]

MutationsAt(d, ls, i) ==
    LET l == ls[i]
        r == IF l.rec = 0 THEN [ind |-> "    ", eol |-> LF] ELSE d.recs[l.rec]
        ind == r.ind
    IN
    CASE l.k = "head" ->
            {Mut(ReplaceAt(ls, i, BadDates[j] \o HeadRest(l.text)), i, "date") : j \in 1..Len(BadDates)}
            \cup {Mut(ReplaceAt(ls, i, Take(l.text, 10) \o " " \o BadShoulds[j]), i, "headline") : j \in 1..Len(BadShoulds)}
            \cup {Mut(ReplaceAt(ls, i, Take(l.text, 10) \o NBSP \o "(8h!)"), i, "date"),
                  Mut(ReplaceAt(ls, i, Take(l.text, 10) \o IDSP), i, "date"),
                  Mut(ReplaceAt(ls, i, Take(l.text, 10) \o " (8h!" \o NBSP \o ")"), i, "headline")}
            \cup {Mut(ReplaceAt(ls, i, " " \o l.text), i, "headline-indented"),
                  Mut(ReplaceAt(ls, i, "    " \o l.text), i, "headline-indented"),
                  Mut(ReplaceAt(ls, i, TAB \o l.text), i, "headline-indented"),
                  Mut(ReplaceAt(ls, i, l.text \o " foo"), i, "headline-text"),
                  Mut(ReplaceAt(ls, i, Take(l.text, 10) \o "(8h!)"), i, "date")}
      [] l.k = "rsum" ->
            {Mut(ReplaceAt(ls, i, " " \o l.text), i, "summary-blank-start"),
             Mut(ReplaceAt(ls, i, NBSP \o l.text), i, "summary-blank-start"),
             Mut(ReplaceAt(ls, i, IDSP \o l.text), i, "summary-blank-start")}
      [] l.k = "entry" ->
            LET isFirstIndented == ls[i - 1].k \in {"head", "rsum"}
                wrong == CASE ind = "    " -> {" ", "     ", "   ", "  ", TAB, "      "}
                           [] ind = "   "  -> {" ", "    ", "     ", "  ", TAB}
                           [] ind = "  "   -> {" ", "   ", TAB}
                           [] ind = TAB    -> {" ", "  ", "    ", TAB \o " ", " " \o TAB}
                (* for the line that defines the record's indentation only those variants that are *)
                (* wrong under every reading                                                        *)
                wrongFirst == {" ", "     ", "      ", TAB \o " ", " " \o TAB}
                body == Drop(l.text, Len(ind))
            IN  {Mut(ReplaceAt(ls, i, ind \o BadValues[j]), i, BadValueRule(BadValues[j])) : j \in 1..Len(BadValues)}
                \cup {Mut(ReplaceAt(ls, i, w \o body), i, "indentation")
                        : w \in IF isFirstIndented THEN wrongFirst ELSE wrong}
                \cup {Mut(ReplaceAt(ls, i, body), i, "indentation") : x \in IF isFirstIndented THEN {} ELSE {1}}
      [] l.k = "cont" ->
            (* a continuation line of blank characters only: a violation under every reading, but which *)
            (* line is the first bad one depends on the reading (DESIGN 3.4): claimed as "unspecified"  *)
            {Mut(ReplaceAt(ls, i, ind \o ind \o NBSP), 0, "unspecified"),
             Mut(ReplaceAt(ls, i, ind \o ind \o IDSP \o NBSP), 0, "unspecified")}
      [] l.k = "blank" -> {}

RecEol(d, l) == IF l.rec > 0 THEN d.recs[l.rec].eol ELSE IF d.recs # <<>> THEN d.recs[1].eol ELSE LF

(* a blank line inside a record: the line after it starts a new block that is not a record *)
BlankInside(d, ls, i) ==
    IF ls[i].k \in {"entry", "cont"} \/ (ls[i].k = "rsum" /\ ~ParseDate(Take(ls[i].text, FindIn(ls[i].text, 1, SpTab) - 1)).ok)
    THEN {Mut(InsertAt(ls, i, L(b, RecEol(d, ls[i]), "blank", ls[i].rec)), i + 1,
              IF ls[i].k = "rsum" THEN "date" ELSE "headline-indented") : b \in {"", "  ", TAB}}
    ELSE {}

(* stray text that is not a record: as its own block before line i (i = Len+1: at the end) *)
Stray(d, ls, i) ==
    LET eol == IF ls = <<>> THEN LF ELSE RecEol(d, ls[Min(i, Len(ls))])
        okPos == i = 1 \/ i = Len(ls) + 1 \/ (ls[i].k = "head" /\ ls[i - 1].k = "blank")
        pre == IF i = Len(ls) + 1 /\ ls # <<>> /\ ls[Len(ls)].k # "blank"
               THEN <<L("", eol, "blank", 0)>> ELSE <<>>
        fix == IF i = Len(ls) + 1 /\ ls # <<>> /\ ls[Len(ls)].eol = "" THEN [ls EXCEPT ![Len(ls)].eol = eol] ELSE ls
    IN  IF ~okPos THEN {}
        ELSE {Mut(SubSeq(fix, 1, i - 1) \o pre \o <<L(t, eol, "stray", 0), L("", eol, "blank", 0)>> \o SubSeq(fix, i, Len(fix)),
                  i + Len(pre), "date") : t \in {"foo bar", "TODO: clean up", "8:00 - 9:00", "(8h!)"}}

(* a second open range appended to a record that already has one *)
SecondOpen(d, ls, i) ==
    LET l == ls[i] IN
    IF l.k \in {"entry", "cont"} /\ (i = Len(ls) \/ ~(ls[i + 1].k \in {"entry", "cont"}))
       /\ l.rec > 0 /\ NumOpen(d.recs[l.rec]) = 1
    THEN LET r == d.recs[l.rec]
             fix == IF l.eol = "" THEN [ls EXCEPT ![i].eol = r.eol] ELSE ls
         IN  {Mut(InsertAt(fix, i + 1, L(r.ind \o q, r.eol, "entry", l.rec)), i + 1, "second-open-range")
                : q \in {"10:00 - ?", "10:00-?? again"}}
             (* ... whose summary goes on for two more lines: the fault is on the entry line *)
             \cup {Mut(InsertAt(InsertAt(InsertAt(fix, i + 1, L(r.ind \o "10:00 - ? second", r.eol, "entry", l.rec)),
                                          i + 2, L(r.ind \o r.ind \o "goes on", r.eol, "cont", l.rec)),
                                 i + 3, L(r.ind \o r.ind \o "#42", r.eol, "cont", l.rec)), i + 1, "second-open-range")}
    ELSE {}

Mutations(d) ==
    LET ls == DocLines(d) IN
    UNION {MutationsAt(d, ls, i) \cup BlankInside(d, ls, i) \cup SecondOpen(d, ls, i) : i \in 1..Len(ls)}
    \cup UNION {Stray(d, ls, i) : i \in 1..(Len(ls) + 1)}
=============================================================================
