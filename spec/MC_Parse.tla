------------------------------ MODULE MC_Parse ------------------------------
(***************************************************************************)
(* C01, C06, C08, C09, C10, C20: bounded instance that enumerates documents *)
(* from the generator KGrammar (conforming documents in many layouts, and   *)
(* rule-violating mutants of them), cross-checks generator and recogniser,  *)
(* checks the spec-level laws (lossless blocks, print fixed point) and      *)
(* emits every document as a replay case.                                   *)
(***************************************************************************)
EXTENDS KGrammar, KParse, KPrint, Json, IOUtils

VARIABLES shard, case
vars == <<shard, case>>

Out  == IOEnv.KV_OUT
Tier == IOEnv.KV_TIER
Seed == atoi(IOEnv.KV_SEED)
Full == Tier = "thorough"
Want == IOEnv.KV_WANT            \* "all" | "valid" | "invalid"
None == [kind |-> "none"]

NV == Len(ValuePool)
NS == Len(SumPool)
E(i, j) == Entry(ValuePool[i], SumPool[j])
Inds == <<"    ", "   ", "  ", TAB>>
Eols == <<LF, CRLF>>

(* seed-rotated picks keep the quick tier small while successive seeds walk through the space *)
Pick(i, n, k) == Full \/ (i + Seed) % n < k

(* base records, covering every entry kind, all indentation styles, both endings *)
BaseRecs == <<
    Rec(HeadPool[1], <<>>, <<E(14, 2)>>, "    ", LF),
    Rec(HeadPool[8], RecSumPool[3], <<E(1, 1), E(32, 6)>>, TAB, CRLF),
    Rec(HeadPool[2], <<>>, <<E(5, 2), E(20, 7), E(33, 1)>>, "  ", LF),
    Rec(HeadPool[10], RecSumPool[2], <<>>, "   ", LF),
    Rec(HeadPool[5], <<>>, <<>>, "    ", CRLF),
    Rec(HeadPool[12], RecSumPool[5], <<E(17, 8), E(8, 9), E(35, 5)>>, "   ", LF)
>>
NB == Len(BaseRecs)
SepPool  == << <<"">>, <<"", "">>, <<"  ">>, <<TAB, "">> >>
LeadPool == << <<>>, <<"">>, <<"  ", "">> >>
TrailPool == << <<>>, <<"">>, <<"", "  ">> >>

LastLineNonEmpty(d) == LET ls == DocLines(d) IN ls # <<>> /\ ls[Len(ls)].text # ""
OkDoc(d) == (d.finalNL \/ LastLineNonEmpty(d)) /\ ~CRBeforeLF(d)

Shards ==
    {[k |-> "A", n |-> i] : i \in 1..NV}
    \cup {[k |-> "B", n |-> i] : i \in 1..Len(HeadPool)}
    \cup {[k |-> "C", n |-> i] : i \in 1..NV}
    \cup {[k |-> "D", n |-> i] : i \in 1..NB}
    \cup {[k |-> "M", n |-> i] : i \in 1..(NB + 4)}

DocsOf(sh) ==
    CASE sh.k = "A" ->      \* one record, one entry: value x summary shape x indentation x ending x final newline
            {Doc(<<>>, <<Rec(HeadPool[1], <<>>, <<E(sh.n, j)>>, Inds[a], Eols[b])>>, << <<>> >>, nl)
                : j \in 1..NS, a \in 1..4, b \in 1..2, nl \in BOOLEAN}
      [] sh.k = "B" ->      \* headline x record summary x few entries
            {Doc(<<>>, <<Rec(HeadPool[sh.n], RecSumPool[j], es, Inds[a], Eols[b])>>, << <<>> >>, nl)
                : j \in 1..Len(RecSumPool), es \in {<<>>, <<E(1, 2)>>, <<E(16, 6), E(3, 1)>>},
                  a \in {aa \in 1..4 : Pick(aa + sh.n, 4, 2)}, b \in 1..2, nl \in BOOLEAN}
      [] sh.k = "C" ->      \* two and three entries per record (includes second open ranges: violating)
            {Doc(<<>>, <<Rec(HeadPool[1], <<>>, <<E(sh.n, s1), E(j, s2)>>, Inds[a], LF)>>, << <<>> >>, TRUE)
                : j \in {jj \in 1..NV : Pick(jj + sh.n, 6, 1) \/ ValuePool[jj].kind = "open"},
                  s1 \in {1, 6}, s2 \in {2, 7}, a \in {1, 3}}
            \cup {Doc(<<>>, <<Rec(HeadPool[8], RecSumPool[2], <<E(sh.n, 2), E(j, 1), E(1, 6)>>, Inds[a], CRLF)>>, << <<>> >>, nl)
                : j \in {jj \in 1..NV : Pick(jj + 2 * sh.n, 9, 1)}, a \in {2, 4}, nl \in BOOLEAN}
      [] sh.k = "D" ->      \* several records: separators, leading / trailing blank lines, mixed styles
            {Doc(LeadPool[l], <<BaseRecs[sh.n], BaseRecs[j]>>, <<SepPool[s], TrailPool[t]>>, nl)
                : j \in 1..NB, s \in 1..Len(SepPool), l \in 1..Len(LeadPool), t \in 1..Len(TrailPool), nl \in BOOLEAN}
            \cup {Doc(<<>>, <<BaseRecs[sh.n], BaseRecs[j], BaseRecs[k]>>, <<SepPool[s], SepPool[1], <<>>>>, nl)
                : j \in {jj \in 1..NB : Pick(jj + sh.n, 3, 1)}, k \in 1..NB, s \in {1, 3}, nl \in BOOLEAN}
      [] sh.k = "M" -> {}

(* base documents for mutation *)
MutBase(i) ==
    IF i <= NB THEN Doc(<<>>, <<BaseRecs[i]>>, << <<>> >>, i % 2 = 0)
    ELSE IF i = NB + 1 THEN Doc(<<"">>, <<BaseRecs[1], BaseRecs[2]>>, << <<"">>, <<"">> >>, TRUE)
    ELSE IF i = NB + 2 THEN Doc(<<>>, <<BaseRecs[3], BaseRecs[4], BaseRecs[6]>>, << <<"", "  ">>, <<"">>, <<>> >>, FALSE)
    ELSE IF i = NB + 3 THEN Doc(<<>>, <<BaseRecs[6], BaseRecs[2]>>, << <<"">>, <<>> >>, TRUE)
    ELSE Doc(<<>>, <<Rec(HeadPool[9], RecSumPool[6], <<E(24, 8), E(13, 1), E(36, 6), E(2, 2)>>, "  ", CRLF)>>, << <<"">> >>, TRUE)

ValidCase(d) ==
    LET wf == WellFormed(d) IN
    [kind |-> "parse", text |-> Render(d), claim |-> IF ~wf THEN "Other" ELSE IF HasOpaque(d) THEN "Unspecified" ELSE "Conforming",
     line |-> 0, den |-> IF wf THEN Denote(d) ELSE <<>>, loose |-> HasLoose(d)]
MutCase(m) ==
    [kind |-> "parse", text |-> JoinL(m.lines), claim |-> IF m.rule = "unspecified" THEN "Unspecified" ELSE "Violating",
     line |-> m.line, den |-> <<>>, loose |-> FALSE]

CasesOf(sh) ==
    IF sh.k = "M"
    THEN IF Want = "valid" THEN {} ELSE {MutCase(m) : m \in Mutations(MutBase(sh.n))}
    ELSE IF Want = "invalid" THEN {c \in {ValidCase(d) : d \in {dd \in DocsOf(sh) : OkDoc(dd)}} : c.claim = "Other"}
    ELSE {ValidCase(d) : d \in {dd \in DocsOf(sh) : OkDoc(dd)}}

Init == shard \in Shards /\ case = None
Next == /\ case = None
        /\ \E c \in CasesOf(shard) : case' = c
        /\ UNCHANGED shard

Emit == Serialize(ToJson([kind |-> "parse", text |-> case'.text, claim |-> case'.claim, line |-> case'.line,
                          workers |-> <<2, 3>>, channels |-> TRUE]) \o "\n", Out,
                  [format |-> "TXT", charset |-> "UTF-8",
                   openOptions |-> <<"WRITE", "CREATE", "APPEND">>]).exitValue = 0

(***************************************************************************)
(* Spec-level checks                                                        *)
(***************************************************************************)
IsDoc == case.kind = "parse"

(* generator and recogniser agree (C01/C10 at spec level) *)
GVP(P) == /\ case.claim = "Conforming" => P.status = "Conforming" /\ DocData(P) = case.den
          /\ case.claim = "Violating" => P.status = "Violating" /\ P.firstBadLine = case.line
          /\ case.claim = "Other" => P.status # "Conforming"
          /\ case.claim = "Unspecified" => P.status = "Unspecified"
(* C08 at spec level: lines and blocks lose nothing *)
BlocksOK(P) ==
    /\ JoinLines(P.lines) = case.text
    /\ \A k \in 1..Len(P.blocks) :
          /\ P.blocks[k].first = (IF k = 1 THEN 1 ELSE P.blocks[k - 1].last + 1)
          /\ P.blocks[k].first <= P.blocks[k].sigFirst /\ P.blocks[k].sigLast <= P.blocks[k].last
    /\ (P.blocks # <<>> => P.blocks[Len(P.blocks)].last = Len(P.lines))
(* C09 at spec level: printing is canonical and a fixed point *)
PrintOK ==
    case.claim = "Conforming" =>
        LET pr == PrintDoc(case.den)  q == ParseDoc(pr)  dq == DocData(q) IN
        /\ q.status = "Conforming"
        /\ PrintDoc(dq) = pr
        /\ \A k \in 1..Len(case.den) :
              LET r == case.den[k]  r2 == dq[k] IN
              /\ r2.date = r.date /\ r2.should = r.should /\ r2.summary = r.summary
              /\ r2.entries = r.entries
SpecLaws ==
    IsDoc => LET P == ParseDoc(case.text) IN
             \/ (GVP(P) /\ BlocksOK(P) /\ PrintOK)
             \/ (PrintT(<<"DIAG", case.text, case.claim, case.line, P.status, P.firstBadLine, P.firstRule>>) /\ FALSE)
(* hand-written denotations of the pools agree with KValues *)
PoolsAgree ==
    /\ \A i \in 1..NV :
          LET v == ValuePool[i]  p == ParseValue(v.lit) IN
          p.ok /\ p.kind = v.kind /\ p.a = v.a /\ p.b = v.b /\ p.canon = v.canon /\ p.loose = v.loose /\ p.end = Len(v.lit) + 1
    /\ \A i \in 1..Len(HeadPool) :
          LET h == ParseHeadline(HeadPool[i].text) IN
          h.ok /\ h.date = HeadPool[i].date /\ h.should = HeadPool[i].should /\ ~h.unspec
=============================================================================
