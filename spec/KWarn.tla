-------------------------------- MODULE KWarn --------------------------------
(***************************************************************************)
(* The warnings klog prints after evaluating or changing a file             *)
(* (klog/service/warning.go, help text of the `no_warnings` setting).       *)
(* Not one of the listed properties: the module extends the specification   *)
(* to a part of the system the properties do not mention; its conformance   *)
(* with the code is measured (rule X.Warn, a drift metric in the evidence   *)
(* of C02), never turned into a verdict.                                    *)
(*                                                                          *)
(* The records are visited from the latest date to the earliest; for each   *)
(* record the four checkers run in a fixed order.  A warning is a pair      *)
(* <<date ordinal, message>>.                                               *)
(***************************************************************************)
EXTENDS KEval

WarnUnclosed == "Unclosed open range"
WarnFuture   == "Entry in the future"
WarnOverlap  == "Overlapping time ranges"
WarnLong     == "Total time exceeds 24 hours"
(* names used by the `no_warnings` setting, in checker order *)
CheckerNames == <<"UNCLOSED_OPEN_RANGE", "FUTURE_ENTRIES", "OVERLAPPING_RANGES", "MORE_THAN_24H">>

HasOpenRange(r) == \E i \in 1..Len(r.entries) : r.entries[i].kind = "open"

(* 1. an open range can still be closed today, or yesterday as long as today has no record *)
Unclosed(S, k, today) ==
    LET r == S[k]
        seenToday == \E j \in 1..(k - 1) : S[j].date.ord = today      \* visited before: later or equal dates
    IN  /\ r.date.ord # today
        /\ ~(~seenToday /\ r.date.ord = today - 1)
        /\ HasOpenRange(r)

(* 2. entries that lie more than half an hour ahead of the clock *)
Instant(ord, off) == ord * 1440 + off
Future(r, now) ==
    LET d == r.date.ord
        fuzzy == Instant(now.ord, now.min + 31)
        ahead(e) == CASE e.kind = "range" -> Instant(d, e.a) >= fuzzy \/ Instant(d, e.b) >= fuzzy
                      [] e.kind = "open" -> Instant(d, e.a) >= fuzzy
                      [] OTHER -> d >= now.ord + 1
    IN  /\ r.entries # <<>>
        /\ d >= now.ord - 1
        /\ (d <= now.ord + 1 => \E i \in 1..Len(r.entries) : ahead(r.entries[i]))

(* 3. time ranges that overlap: the ranges are ordered by their start (an open range is taken to  *)
(* last until 23:59) and each one that is not a point in time is compared with its predecessor.   *)
(* Equal starts end up in reverse order of appearance (the code's insertion sort with a          *)
(* non-strict comparison), which decides what "predecessor" means.                                *)
RangeList(r) ==
    LET pick(e) == IF e.kind = "range" THEN << <<e.a, e.b>> >>
                   ELSE IF e.kind = "open" /\ e.a <= 1439 THEN << <<e.a, 1439>> >> ELSE <<>>
        RECURSIVE from(_)
        from(i) == IF i > Len(r.entries) THEN <<>> ELSE pick(r.entries[i]) \o from(i + 1)
    IN  from(1)
RECURSIVE OrderByStart(_)
OrderByStart(L) ==
    IF L = <<>> THEN <<>>
    ELSE LET i == CHOOSE x \in 1..Len(L) : \A j \in 1..Len(L) : L[x][1] < L[j][1] \/ (L[x][1] = L[j][1] /\ x >= j)
         IN  <<L[i]>> \o OrderByStart(SubSeq(L, 1, i - 1) \o SubSeq(L, i + 1, Len(L)))
Overlapping(r) ==
    LET O == OrderByStart(RangeList(r)) IN
    \E i \in 2..Len(O) : O[i][1] # O[i][2] /\ O[i][1] < O[i - 1][2]

(* 4. more than 24 hours in one record (open ranges do not count) *)
TooLong(r) == RecTotal(r) > 1440

Fires(S, k, now) == <<Unclosed(S, k, now.ord), Future(S[k], now), Overlapping(S[k]), TooLong(S[k])>>
Messages == <<WarnUnclosed, WarnFuture, WarnOverlap, WarnLong>>

RECURSIVE WarningsFrom(_, _, _, _)
WarningsFrom(S, k, now, off) ==      \* off: set of disabled checker names
    IF k > Len(S) THEN <<>>
    ELSE LET f == Fires(S, k, now)
             RECURSIVE ws(_)
             ws(c) == IF c > 4 THEN <<>>
                      ELSE (IF f[c] /\ CheckerNames[c] \notin off THEN << <<S[k].date.ord, Messages[c]>> >> ELSE <<>>) \o ws(c + 1)
         IN  ws(1) \o WarningsFrom(S, k + 1, now, off)
Warnings(R, now, off) == WarningsFrom(SortRecs(R, FALSE), 1, now, off)
=============================================================================
