----------------------------- MODULE KCalendar -----------------------------
(***************************************************************************)
(* Proleptic Gregorian calendar on day ordinals: 0000-01-01 = 0 ...         *)
(* 9999-12-31 = 3652424.  Weekdays Monday = 1 ... Sunday = 7 and ISO 8601   *)
(* week numbering (week 1 is the week with the year's first Thursday).      *)
(* Written from the ISO 8601 / Gregorian definitions, not from the Go code. *)
(***************************************************************************)
EXTENDS Integers, Sequences, FiniteSets, TLC

MinYear == 0
MaxYear == 9999
MaxOrd  == 3652424

IsLeap(y) == (y % 4 = 0 /\ y % 100 # 0) \/ y % 400 = 0

DaysInMonth(y, m) == IF m \in {1, 3, 5, 7, 8, 10, 12} THEN 31
                     ELSE IF m \in {4, 6, 9, 11} THEN 30
                     ELSE IF IsLeap(y) THEN 29 ELSE 28

ValidDate(y, m, d) == /\ y \in MinYear..MaxYear
                      /\ m \in 1..12
                      /\ d \in 1..DaysInMonth(y, m)

(* days before January 1st of year y (year 0 is a leap year) *)
DaysBeforeYear(y) == IF y = 0 THEN 0
                     ELSE 365 * y + ((y - 1) \div 4) - ((y - 1) \div 100) + ((y - 1) \div 400) + 1

CumDays == <<0, 31, 59, 90, 120, 151, 181, 212, 243, 273, 304, 334>>
DaysBeforeMonth(y, m) == CumDays[m] + (IF m > 2 /\ IsLeap(y) THEN 1 ELSE 0)

Ord(y, m, d) == DaysBeforeYear(y) + DaysBeforeMonth(y, m) + d - 1

YearOfOrd(o) == LET y0 == (o * 400) \div 146097          \* o <= 3.7 M: no 32-bit overflow
                IN  IF y0 < MaxYear /\ DaysBeforeYear(y0 + 1) <= o THEN y0 + 1
                    ELSE IF DaysBeforeYear(y0) > o THEN y0 - 1
                    ELSE y0
MonthOfDoy(y, doy) == \* doy = 0-based day of year
    CHOOSE m \in 1..12 : /\ DaysBeforeMonth(y, m) <= doy
                         /\ doy < DaysBeforeMonth(y, m) + DaysInMonth(y, m)
Civil(o) == LET y == YearOfOrd(o)
                doy == o - DaysBeforeYear(y)
                m == MonthOfDoy(y, doy)
            IN  [y |-> y, m |-> m, d |-> doy - DaysBeforeMonth(y, m) + 1]

OrdOK(o) == o \in 0..MaxOrd

(* 0000-01-01 is a Saturday *)
Weekday(o) == ((o + 5) % 7) + 1

Quarter(m) == ((m - 1) \div 3) + 1

(* ISO week: the week-year is the year of the week's Thursday.  For the     *)
(* first two days of year 0 the Thursday lies in year -1.                   *)
ThursdayOf(o) == o - Weekday(o) + 4
IsoWeekYear(o) == LET th == ThursdayOf(o)
                  IN  IF th < 0 THEN -1 ELSE IF th > MaxOrd THEN MaxYear + 1 ELSE YearOfOrd(th)
IsoWeek(o) == LET th == ThursdayOf(o)
              IN  IF th < 0 THEN 52      \* year -1 (a common year starting Friday) has 52 weeks
                  ELSE IF th > MaxOrd THEN 1
                  ELSE ((th - DaysBeforeYear(YearOfOrd(th))) \div 7) + 1

(* number of ISO weeks in a year: 53 iff Jan 1 is a Thursday, or a leap year starting Wednesday *)
WeeksInYear(y) == LET wd == Weekday(DaysBeforeYear(y))
                  IN  IF wd = 4 \/ (wd = 3 /\ IsLeap(y)) THEN 53 ELSE 52

(***************************************************************************)
(* Periods as [since, until] ordinal pairs.  A period whose true bounds    *)
(* fall outside 0..MaxOrd is not representable.                             *)
(***************************************************************************)
WeekOf(o)    == [since |-> o - Weekday(o) + 1, until |-> o - Weekday(o) + 7]
MonthOf(o)   == LET c == Civil(o) IN
                [since |-> Ord(c.y, c.m, 1), until |-> Ord(c.y, c.m, DaysInMonth(c.y, c.m))]
QuarterOf(o) == LET c == Civil(o)  q == Quarter(c.m)  m1 == 3 * q - 2  m3 == 3 * q IN
                [since |-> Ord(c.y, m1, 1), until |-> Ord(c.y, m3, DaysInMonth(c.y, m3))]
YearOf(o)    == LET c == Civil(o) IN
                [since |-> Ord(c.y, 1, 1), until |-> Ord(c.y, 12, 31)]

PeriodOf(kind, o) == CASE kind = "week" -> WeekOf(o) [] kind = "month" -> MonthOf(o)
                       [] kind = "quarter" -> QuarterOf(o) [] kind = "year" -> YearOf(o)
                       [] kind = "day" -> [since |-> o, until |-> o]
Representable(p) == p.since >= 0 /\ p.until <= MaxOrd
PreviousOf(kind, o) == PeriodOf(kind, PeriodOf(kind, o).since - 1)     \* needs since > 0

(* bucket identity: two dates are in the same bucket iff their periods are equal *)
BucketId(kind, o) == PeriodOf(kind, o).since

(* first day (Monday) of ISO week w of week-year y; w must be in 1..WeeksInYear(y) *)
WeekStart(y, w) == LET jan4 == Ord(y, 1, 4) IN jan4 - Weekday(jan4) + 1 + 7 * (w - 1)

=============================================================================
