INIT Init
NEXT Next
ACTION_CONSTRAINT Emit
INVARIANT Laws
CHECK_DEADLOCK FALSE
