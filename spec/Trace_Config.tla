----------------------------- MODULE Trace_Config -----------------------------
(***************************************************************************)
(* Code -> spec for the configuration file: every recorded run of the real  *)
(* configuration reader and of `klog config` is judged against KConfig.     *)
(* These rules are a drift metric (prefix X), not verdicts on the properties. *)
(***************************************************************************)
EXTENDS KConfig, Json, IOUtils

VARIABLES l, sh
Trace == ndJsonDeserialize(IOEnv.KV_TRACE)
N     == Len(Trace)
NSh   == 64
Init == l = 0 /\ sh = 0
Next == \/ /\ l = 0 /\ sh = 0
           /\ sh' \in 1..NSh /\ l' = 0
        \/ /\ l = 0 /\ sh > 0 /\ sh <= N
           /\ l' \in {sh + NSh * k : k \in 0..((N - sh) \div NSh)}
           /\ sh' = sh

RuleNames == {"X.ConfigNoPanic", "X.ConfigAccept", "X.ConfigShown", "X.ConfigFixedPoint"}
ShownOf(pairs) == [k \in {pairs[i][1] : i \in 1..Len(pairs)} |-> (CHOOSE i \in 1..Len(pairs) : pairs[i][1] = k)]
Holds(r, ev) ==
    LET c == ev.case  o == ev.obs  live == ev.panic = ""
        m == Read(c.cfg, {c.env[i] : i \in 1..Len(c.env)})
    IN
    CASE r = "X.ConfigNoPanic" -> live
      [] r = "X.ConfigAccept" -> live => o.accepted = m.ok
      [] r = "X.ConfigShown" -> live /\ o.accepted /\ m.ok =>
            /\ o.code = 0
            /\ [i \in 1..Len(o.shown) |-> o.shown[i][1]] = Keys
            /\ \A i \in 1..Len(o.shown) : o.shown[i][2] = m.shown[Keys[i]]
      (* the output of `klog config` is a configuration file that means the same *)
      [] r = "X.ConfigFixedPoint" -> live /\ o.accepted => o.accepted2 /\ o.shown2 = o.shown

Failed(ev) == {r \in RuleNames : ~Holds(r, ev)}
Accept == l > 0 => LET v == Failed(Trace[l]) IN v = {} \/ (PrintT(<<"VIOL", l, v>>) /\ FALSE)
=============================================================================
