------------------------------- MODULE KConfig -------------------------------
(***************************************************************************)
(* The configuration file `config.ini` (help text of `klog config`, the     *)
(* per-setting help in klog/app/config.go, the INI reader it uses).  Not    *)
(* one of the listed properties: the module extends the specification to    *)
(* the part of the system that parameterises several of them (date format,  *)
(* clock convention, default rounding, default should-total, colour scheme, *)
(* warnings).  Its conformance with the code is measured (rules X.Config*,  *)
(* a drift metric in the evidence of C18), never turned into a verdict.     *)
(*                                                                          *)
(* Read(text, env) = [ok |-> FALSE] for a file klog must refuse, else       *)
(* [ok |-> TRUE, shown |-> key :> value] : what `klog config` shows as the   *)
(* settings taken from the file, in canonical spelling ("" = not set).      *)
(***************************************************************************)
EXTENDS KValues

Keys == <<"editor", "colour_scheme", "default_rounding", "default_should_total", "date_format", "time_convention", "no_warnings">>
KeySet == {Keys[i] : i \in 1..Len(Keys)}

(***************************************************************************)
(* The INI syntax: `key = value` lines, `#` comments, blank lines,          *)
(* `[section]` headers (settings are read from the part before any header)  *)
(***************************************************************************)
IniLines(text) == LET ls == SplitLines(text) IN [i \in 1..Len(ls) |-> ls[i].text]     \* LF and CRLF endings
AllBlank(l) == \A i \in 1..Len(l) : Ch(l, i) \in {" ", "\t"}
RECURSIVE RTrimST(_)
RTrimST(l) == IF l # "" /\ Ch(l, Len(l)) \in {" ", "\t"} THEN RTrimST(Take(l, Len(l) - 1)) ELSE l
RECURSIVE RTrimSp(_)
RTrimSp(l) == IF l # "" /\ Ch(l, Len(l)) = " " THEN RTrimSp(Take(l, Len(l) - 1)) ELSE l
Has(l, c) == \E i \in 1..Len(l) : Ch(l, i) = c

(* one line: "skip", "bad", [k |-> "section", name] or [k |-> "pair", key, value] *)
IniLine(l) ==
    IF l = "" \/ Ch(l, 1) = "#" \/ AllBlank(l) THEN [k |-> "skip"]
    ELSE IF Ch(l, 1) = "["
    THEN LET t == RTrimST(l)
             name == Mid(t, 2, Len(t) - 1)
         IN  IF Ch(t, Len(t)) # "]" \/ Len(t) < 2 THEN [k |-> "bad"]
             ELSE IF name = "" \/ AllBlank(name) \/ Has(name, "[") \/ Has(name, "]") THEN [k |-> "bad"]
             ELSE [k |-> "section", name |-> name]
    ELSE LET e == FindIn(l, 1, {"="}) IN
         IF e > Len(l) THEN [k |-> "bad"]
         ELSE LET key0 == Take(l, e - 1)
                  val0 == Drop(l, e)
                  key == RTrimSp(key0)
              IN  IF key0 = "" \/ Ch(key0, Len(key0)) # " " THEN [k |-> "bad"]
                  ELSE IF Has(key, " ") \/ Has(key, "\t") THEN [k |-> "bad"]
                  ELSE IF val0 \notin {"", " "} /\ Ch(val0, 1) # " " THEN [k |-> "bad"]
                  ELSE [k |-> "pair", key |-> key, value |-> IF val0 # "" /\ Ch(val0, 1) = " " THEN Drop(val0, 1) ELSE val0]

(* the assignments of the part without section; a later assignment of the same key wins *)
RECURSIVE IniFrom(_, _, _, _)
IniFrom(ls, i, insec, acc) ==
    IF i > Len(ls) THEN [ok |-> TRUE, get |-> acc]
    ELSE LET x == IniLine(ls[i]) IN
         CASE x.k = "bad" -> [ok |-> FALSE, get |-> acc]
           [] x.k = "section" -> IniFrom(ls, i + 1, TRUE, acc)
           [] x.k = "pair" /\ ~insec /\ x.key \in KeySet -> IniFrom(ls, i + 1, insec, [acc EXCEPT ![x.key] = x.value])
           [] OTHER -> IniFrom(ls, i + 1, insec, acc)
Ini(text) == IniFrom(IniLines(text), 1, FALSE, [k \in KeySet |-> ""])

(***************************************************************************)
(* The settings: which values are valid, and their canonical spelling       *)
(***************************************************************************)
IsDigits(s) == s # "" /\ \A i \in 1..Len(s) : IsDigit(Ch(s, i))
AtoiOK(s) == IF s # "" /\ Ch(s, 1) \in {"+", "-"} THEN IsDigits(Drop(s, 1)) /\ Len(s) <= 8 ELSE IsDigits(s) /\ Len(s) <= 8
AtoiVal(s) == IF Ch(s, 1) = "-" THEN 0 - NatOf(Drop(s, 1)) ELSE IF Ch(s, 1) = "+" THEN NatOf(Drop(s, 1)) ELSE NatOf(s)
Rounding(v) == LET w == IF EndsWith(v, "m") THEN Take(v, Len(v) - 1) ELSE v IN
               IF v = "1h" THEN 60 ELSE IF AtoiOK(w) THEN AtoiVal(w) ELSE -1
RemoveSpaces(s) == LET RECURSIVE f(_) f(t) == IF t = "" THEN "" ELSE (IF Ch(t, 1) = " " THEN "" ELSE Take(t, 1)) \o f(Drop(t, 1)) IN f(s)
RECURSIVE SplitAtComma(_)
SplitAtComma(s) == LET i == FindIn(s, 1, {","}) IN IF i > Len(s) THEN <<s>> ELSE <<Take(s, i - 1)>> \o SplitAtComma(Drop(s, i))
Checkers == <<"FUTURE_ENTRIES", "MORE_THAN_24H", "OVERLAPPING_RANGES", "UNCLOSED_OPEN_RANGE">>     \* in alphabetical order
CheckerSet == {Checkers[i] : i \in 1..Len(Checkers)}
NoWarnList(v) == SplitAtComma(RemoveSpaces(v))
JoinComma(q) == LET RECURSIVE f(_) f(i) == IF i > Len(q) THEN "" ELSE q[i] \o (IF i < Len(q) THEN ", " ELSE "") \o f(i + 1) IN f(1)

(* [ok, canon] of one setting *)
Setting(key, v) ==
    CASE key = "editor" -> [ok |-> TRUE, canon |-> v]
      [] key = "colour_scheme" -> [ok |-> v \in {"dark", "light", "basic", "no_colour"}, canon |-> v]
      [] key = "default_rounding" -> LET r == Rounding(v) IN [ok |-> r \in {5, 10, 12, 15, 20, 30, 60}, canon |-> NatStr(IF r < 0 THEN 0 ELSE r) \o "m"]
      [] key = "default_should_total" ->
            LET d == ParseDuration(IF EndsWith(v, "!") THEN Take(v, Len(v) - 1) ELSE v) IN
            [ok |-> d.ok, canon |-> IF d.ok THEN FormatMins(d.mins) \o "!" ELSE ""]
      [] key = "date_format" -> [ok |-> v \in {"YYYY-MM-DD", "YYYY/MM/DD"}, canon |-> v]
      [] key = "time_convention" -> [ok |-> v \in {"24h", "12h"}, canon |-> v]
      [] key = "no_warnings" ->
            LET q == NoWarnList(v)
                S == {q[i] : i \in 1..Len(q)}
            IN  [ok |-> S \subseteq CheckerSet, canon |-> JoinComma(SelectSeq(Checkers, LAMBDA c : c \in S))]

(* env: the set of environment variables that are set (NO_COLOR takes the colour scheme away from the file) *)
Read(text, env) ==
    LET ini == Ini(text) IN
    IF ~ini.ok THEN [ok |-> FALSE]
    ELSE IF \E k \in KeySet : ini.get[k] # "" /\ ~Setting(k, ini.get[k]).ok THEN [ok |-> FALSE]
    ELSE [ok |-> TRUE,
          shown |-> [k \in KeySet |-> IF ini.get[k] = "" \/ (k = "colour_scheme" /\ "NO_COLOR" \in env) THEN ""
                                      ELSE Setting(k, ini.get[k]).canon]]
=============================================================================
