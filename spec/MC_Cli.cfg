INIT Init
NEXT Next
ACTION_CONSTRAINT Emit
INVARIANTS OneOpenRange RangesOrdered FileValid
PROPERTIES StepOK
CHECK_DEADLOCK FALSE
