INIT Init
NEXT Next
ACTION_CONSTRAINT Emit
INVARIANTS OneOpenRange RangesOrdered
PROPERTIES StepOK
CHECK_DEADLOCK FALSE
