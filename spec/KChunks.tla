------------------------------ MODULE KChunks ------------------------------
(***************************************************************************)
(* The data flow of the parallel batch parser (C07) on abstract bytes:      *)
(* split the text into N chunks at rune starts, per chunk keep the first    *)
(* block ("head") and the last block ("tail") as text and parse the blocks  *)
(* in between, then merge sequentially, re-parsing carried text.  The       *)
(* property: the merged block list equals the serial block list, for every  *)
(* text and every N.  Bytes: "a" text, " " blank, LF, CR, "L" lead byte of  *)
(* a 2-byte character, "M" lead byte of a 3-byte character, "c"             *)
(* continuation byte, "F" a byte that is never valid (0xFF).                *)
(***************************************************************************)
EXTENDS Integers, Sequences, FiniteSets, TLC

LFb == "n"
IsCont(b) == b = "c"
BlankByte(b) == b = " "

(* lines of a byte sequence: each line includes its LF; the last may lack one *)
RECURSIVE LinesOf(_)
LinesOf(t) == IF t = <<>> THEN <<>>
              ELSE LET S == {i \in 1..Len(t) : t[i] = LFb}
                       e == IF S = {} THEN Len(t) ELSE CHOOSE i \in S : \A j \in S : i <= j
                   IN  <<SubSeq(t, 1, e)>> \o LinesOf(SubSeq(t, e + 1, Len(t)))
BlankLine(l) == \A i \in 1..Len(l) : BlankByte(l[i]) \/ l[i] = LFb \/ (l[i] = "r" /\ i = Len(l) - 1 /\ l[Len(l)] = LFb)

RECURSIVE Flat(_)
Flat(ls) == IF ls = <<>> THEN <<>> ELSE Head(ls) \o Flat(Tail(ls))

(* ParseBlock: number of lines of the first block (0 if there is no significant line: then everything is consumed) *)
FirstBlockLines(ls) ==
    LET n == Len(ls)
        sig == {i \in 1..n : ~BlankLine(ls[i])}
    IN  IF sig = {} THEN [block |-> FALSE, lines |-> n]
        ELSE LET f == CHOOSE i \in sig : \A j \in sig : i <= j
                 (* end of the significant run *)
                 bl == {i \in f..n : BlankLine(ls[i])}
                 sl == IF bl = {} THEN n ELSE (CHOOSE i \in bl : \A j \in bl : i <= j) - 1
                 nx == {i \in (sl + 1)..n : ~BlankLine(ls[i])}
                 last == IF nx = {} THEN n ELSE (CHOOSE i \in nx : \A j \in nx : i <= j) - 1
             IN  [block |-> TRUE, lines |-> last]

(* mapParse: the blocks of a text, each as its sequence of lines *)
RECURSIVE BlocksOfLines(_)
BlocksOfLines(ls) == IF ls = <<>> THEN <<>>
                     ELSE LET fb == FirstBlockLines(ls) IN
                          IF ~fb.block THEN <<>>
                          ELSE <<SubSeq(ls, 1, fb.lines)>> \o BlocksOfLines(SubSeq(ls, fb.lines + 1, Len(ls)))
SerialBlocks(t) == BlocksOfLines(LinesOf(t))

(* splitIntoChunks *)
CeilDiv(a, b) == (a + b - 1) \div b
RECURSIVE ChunksFrom(_, _, _, _)
ChunksFrom(t, size, pointer, left) ==
    IF left = 0 THEN <<>>
    ELSE LET raw == pointer + size
             adv == {p \in raw..Len(t) : p >= Len(t) \/ ~IsCont(t[p + 1])}       \* 0-based pointer p: byte p+1
             np0 == IF raw >= Len(t) THEN raw ELSE CHOOSE p \in adv : \A q \in adv : p <= q
             (* the two bytes of a CRLF line ending are kept together *)
             nextP == IF np0 > 0 /\ np0 < Len(t) /\ t[np0] = "r" /\ t[np0 + 1] = LFb THEN np0 + 1 ELSE np0
         IN  IF nextP > Len(t)
             THEN <<SubSeq(t, pointer + 1, Len(t))>> \o [i \in 1..(left - 1) |-> <<>>]
             ELSE <<SubSeq(t, pointer + 1, nextP)>> \o ChunksFrom(t, size, nextP, left - 1)
Chunks(t, n) == ChunksFrom(t, CeilDiv(Len(t), n), 0, n)

(* the work of one batch *)
Batch(ct) ==
    IF ct = <<>> THEN [head |-> <<>>, blocks |-> <<>>, tail |-> <<>>]
    ELSE LET ls == LinesOf(ct)
             fb == FirstBlockLines(ls)
             head == Flat(SubSeq(ls, 1, fb.lines))
             rest == SubSeq(ls, fb.lines + 1, Len(ls))
         IN  IF rest = <<>> THEN [head |-> head, blocks |-> <<>>, tail |-> <<>>]
             ELSE LET bs == BlocksOfLines(rest) IN
                  IF bs = <<>> THEN [head |-> head, blocks |-> <<>>, tail |-> Flat(rest)]
                  ELSE LET consumed == Len(Flat(Flat(SubSeq(bs, 1, Len(bs) - 1)))) IN
                       [head |-> head, blocks |-> SubSeq(bs, 1, Len(bs) - 1),
                        tail |-> SubSeq(Flat(rest), consumed + 1, Len(Flat(rest)))]

(* the sequential merge *)
RECURSIVE MergeFrom(_, _, _)
MergeFrom(rs, i, carry) ==
    IF i > Len(rs) THEN SerialBlocks(carry)
    ELSE LET c1 == carry \o rs[i].head IN
         IF rs[i].blocks # <<>>
         THEN SerialBlocks(c1) \o rs[i].blocks \o MergeFrom(rs, i + 1, rs[i].tail)
         ELSE MergeFrom(rs, i + 1, c1 \o rs[i].tail)
ParallelBlocks(t, n) == LET cs == Chunks(t, n) IN MergeFrom([i \in 1..Len(cs) |-> Batch(cs[i])], 1, <<>>)

ChunksCoverText(t, n) == Flat(Chunks(t, n)) = t /\ Len(Chunks(t, n)) = n
ParallelEqualsSerial(t, n) == ParallelBlocks(t, n) = SerialBlocks(t)
=============================================================================
