SPECIFICATION Spec
CONSTANTS N = 4
 StoreByArrival = FALSE
INVARIANTS ByIndex NoSendAfterClose EachOnce
PROPERTY CollectorTerminates
