------------------------------- MODULE KRecord -------------------------------
(***************************************************************************)
(* Tags in summaries (Specification.md, section Tag): recognition, value    *)
(* syntax, normalisation, matching and the canonical spelling.              *)
(***************************************************************************)
EXTENDS KText

IsNameChar(c) == IsLetter(c) \/ IsDigit(c) \/ c = "_" \/ c = "-"
NameChars == Letters \cup Digits \cup {"_", "-"}

LowerOf(c) ==
    CASE c = "A" -> "a" [] c = "B" -> "b" [] c = "C" -> "c" [] c = "D" -> "d" [] c = "E" -> "e" [] c = "F" -> "f"
      [] c = "G" -> "g" [] c = "H" -> "h" [] c = "I" -> "i" [] c = "J" -> "j" [] c = "K" -> "k" [] c = "L" -> "l"
      [] c = "M" -> "m" [] c = "N" -> "n" [] c = "O" -> "o" [] c = "P" -> "p" [] c = "Q" -> "q" [] c = "R" -> "r"
      [] c = "S" -> "s" [] c = "T" -> "t" [] c = "U" -> "u" [] c = "V" -> "v" [] c = "W" -> "w" [] c = "X" -> "x"
      [] c = "Y" -> "y" [] c = "Z" -> "z" [] c = "Ä" -> "ä" [] c = "Σ" -> "σ" [] OTHER -> c
RECURSIVE Lower(_)
Lower(s) == IF s = "" THEN "" ELSE LowerOf(Ch(s, 1)) \o Lower(Drop(s, 1))

(* scan a line from position i; returns the tags in order: [name (lower-cased), value, from, to] *)
RECURSIVE TagsFrom(_, _)
TagsFrom(s, i) ==
    LET h == FindIn(s, i, {"#"}) IN
    IF h > Len(s) THEN <<>>
    ELSE LET ne == SkipIn(s, h + 1, NameChars)          \* end of name (exclusive)
         IN  IF ne = h + 1 THEN TagsFrom(s, h + 1)      \* "#" not followed by a name character
             ELSE
             LET name == Lower(Mid(s, h + 1, ne - 1))
                 hasEq == ne <= Len(s) /\ Ch(s, ne) = "="
                 q == IF hasEq /\ ne + 1 <= Len(s) THEN Ch(s, ne + 1) ELSE ""
                 close == IF q \in {"\"", "'"} THEN FindIn(s, ne + 2, {q}) ELSE 0
                 quoted == q \in {"\"", "'"} /\ close <= Len(s)
                 ue == IF hasEq THEN SkipIn(s, ne + 1, NameChars) ELSE ne      \* end of unquoted value
                 value == IF ~hasEq THEN ""
                          ELSE IF quoted THEN Mid(s, ne + 2, close - 1)
                          ELSE Mid(s, ne + 1, ue - 1)
                 to == IF ~hasEq THEN ne - 1 ELSE IF quoted THEN close ELSE ue - 1
             IN  <<[name |-> name, value |-> value, from |-> h, to |-> to]>> \o TagsFrom(s, to + 1)
TagsOfLine(s) == TagsFrom(s, 1)

RECURSIVE TagsOfLines(_)
TagsOfLines(ls) == IF ls = <<>> THEN <<>> ELSE TagsOfLine(Head(ls)) \o TagsOfLines(Tail(ls))

(* canonical spelling of a tag *)
NeedsQuote(v) == \E i \in 1..Len(v) : ~IsNameChar(Ch(v, i))
HasDQ(v) == \E i \in 1..Len(v) : Ch(v, i) = "\""
TagStr(t) == "#" \o t.name \o
             (IF t.value = "" THEN ""
              ELSE IF ~NeedsQuote(t.value) THEN "=" \o t.value
              ELSE IF HasDQ(t.value) THEN "='" \o t.value \o "'"
              ELSE "=\"" \o t.value \o "\"")
TagStrs(ts) == [i \in 1..Len(ts) |-> TagStr(ts[i])]

(* the set a summary's tags match against: every tag, and the bare name of every tag with value *)
TagKey(t) == <<t.name, t.value>>
TagSetOf(ts) == {TagKey(ts[i]) : i \in 1..Len(ts)} \cup {<<ts[i].name, "">> : i \in 1..Len(ts)}
=============================================================================
