INIT Init
NEXT Next
ACTION_CONSTRAINT Emit
INVARIANTS SpecLaws PoolsAgree
CHECK_DEADLOCK FALSE
