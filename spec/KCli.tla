-------------------------------- MODULE KCli --------------------------------
(***************************************************************************)
(* The system at the level of abstract records: what each mutating command  *)
(* of the CLI does to the data of a file (C04), written from the command    *)
(* help texts, Specification.md and the statement of C04/C17.               *)
(*                                                                          *)
(* A command is a record                                                    *)
(*   [op, dsel ("none"|"today"|"yesterday"|"tomorrow"|"date"), date, time,  *)
(*    round, summary (lines), resume, nth, entry (lines), should, notags,   *)
(*    extend, ticks (seconds since `now'), edits]                           *)
(* edits[k] is what the environment (an editor, a second klog process)      *)
(* appends to the file while `pause' sleeps before its k-th clock reading   *)
(* ("" = nothing): the file is the only state, every iteration re-reads it. *)
(* now = [ord, min, sec]; cfg = [datefmt, timeconv, rounding, should].      *)
(*                                                                          *)
(* Model(cmd, R, now, cfg) gives the verdict of the abstract model:         *)
(* st = "fail" (must be rejected, nothing changes), "unspec" (no verdict),  *)
(* or "ok" with a description of the one permitted change.                  *)
(***************************************************************************)
EXTENDS KParse, KRecord

NoCmd == [op |-> "none", dsel |-> "none", date |-> "", time |-> "", round |-> 0, summary |-> <<>>,
          resume |-> FALSE, nth |-> 0, entry |-> <<>>, should |-> "", notags |-> FALSE, extend |-> FALSE,
          ticks |-> <<>>, edits |-> <<>>]

EditAt(cmd, k) == IF k <= Len(cmd.edits) THEN cmd.edits[k] ELSE ""
(* the environment's action: a further record is appended after a blank line *)
ExtAppend(text, e) == IF e = "" THEN text
                      ELSE text \o (IF text = "" \/ EndsWith(text, "\n") THEN "\n" ELSE "\n\n") \o e
RECURSIVE ExtAppendAll(_, _, _)
ExtAppendAll(text, cmd, k) == IF k = 0 THEN text ELSE ExtAppend(ExtAppendAll(text, cmd, k - 1), EditAt(cmd, k))

TargetOrd(cmd, now) ==
    CASE cmd.dsel = "date" -> ParseDate(cmd.date).ord
      [] cmd.dsel = "yesterday" -> now.ord - 1
      [] cmd.dsel = "tomorrow" -> now.ord + 1
      [] OTHER -> now.ord

(* first record of that date, 0 if none *)
FindRec(R, ord) == LET S == {k \in 1..Len(R) : R[k].date.ord = ord}
                   IN  IF S = {} THEN 0 ELSE CHOOSE k \in S : \A k2 \in S : k <= k2

OpenIdx(r) == LET S == {i \in 1..Len(r.entries) : r.entries[i].kind = "open"}
              IN  IF S = {} THEN 0 ELSE CHOOSE i \in S : \A i2 \in S : i <= i2
PauseIdx(r) == LET S == {i \in 1..Len(r.entries) : r.entries[i].kind = "dur" /\ r.entries[i].a <= 0}
               IN  IF S = {} THEN 0 ELSE CHOOSE i \in S : \A i2 \in S : i >= i2

(* the time a command without --time refers to, relative to the target record's date;  *)
(* st = "missing" if no time can be derived, "unrep" if it cannot be represented        *)
AutoOff(cmd, now, cfg, targetOrd) ==
    LET r == IF cmd.round # 0 THEN cmd.round ELSE cfg.rounding
        m == IF r = 0 THEN now.min ELSE RoundNearest(now.min, r)
        off == IF targetOrd = now.ord THEN m
               ELSE IF targetOrd = now.ord - 1 THEN m + 1440
               ELSE IF targetOrd = now.ord + 1 THEN m - 1440
               ELSE 99999
    IN  IF off = 99999 THEN [st |-> "missing", off |-> 0]
        ELSE IF ~TimeOffOK(off) THEN [st |-> "unrep", off |-> 0]
        ELSE [st |-> "ok", off |-> off]
TimeOf(cmd, now, cfg, targetOrd) ==
    IF cmd.time # "" THEN [st |-> "ok", off |-> ParseTime(cmd.time).off]
    ELSE AutoOff(cmd, now, cfg, targetOrd)

ShouldOf(cmd, cfg) ==
    LET s == IF cmd.should # "" THEN cmd.should ELSE cfg.should
        t == IF EndsWith(s, "!") THEN Take(s, Len(s) - 1) ELSE s
    IN  IF s = "" THEN 0 ELSE ParseDuration(t).mins

(* --resume / --resume-nth / --summary: the summary of the new entry.  cur = the target record's     *)
(* entries (after a preceding stop for switch), prevs = candidate "previous records" (start only).   *)
NthEntry(es, n) == LET i == IF n > 0 THEN n ELSE Len(es) + n + 1
                   IN  IF i < 1 \/ i > Len(es) THEN 0 ELSE i
SummaryOf(cmd, es, prevs) ==
    IF cmd.summary # <<>> /\ (cmd.resume \/ cmd.nth # 0) THEN [st |-> "fail", sums |-> {}]
    ELSE IF cmd.resume /\ cmd.nth # 0 THEN [st |-> "fail", sums |-> {}]
    ELSE IF cmd.summary # <<>> THEN [st |-> "ok", sums |-> {cmd.summary}]
    ELSE IF cmd.resume
         THEN IF es # <<>> THEN [st |-> "ok", sums |-> {es[Len(es)].summary}]
              ELSE IF prevs = {} THEN [st |-> "ok", sums |-> {<<"">>}]
              ELSE [st |-> "ok", sums |-> {IF p.entries = <<>> THEN <<"">> ELSE p.entries[Len(p.entries)].summary : p \in prevs}]
    ELSE IF cmd.nth # 0
         THEN IF NthEntry(es, cmd.nth) = 0 THEN [st |-> "fail", sums |-> {}]
              ELSE [st |-> "ok", sums |-> {es[NthEntry(es, cmd.nth)].summary}]
    ELSE [st |-> "ok", sums |-> {<<"">>}]

(* the records dated latest before ord *)
PrevRecs(R, ord) ==
    LET before == {k \in 1..Len(R) : R[k].date.ord < ord}
        latest == {k \in before : \A k2 \in before : R[k2].date.ord <= R[k].date.ord}
    IN  {R[k] : k \in latest}

RECURSIVE RTrim(_)
RTrim(s) == IF s # "" /\ LastCh(s) = SP THEN RTrim(Take(s, Len(s) - 1)) ELSE s

Fail == [st |-> "fail"]
Unspec == [st |-> "unspec"]

(***************************************************************************)
(* The model's verdict                                                      *)
(***************************************************************************)
Model(cmd, R, now, cfg) ==
    LET tord == TargetOrd(cmd, now)
        t == FindRec(R, tord)
    IN
    CASE cmd.op = "track" ->
            LET l1 == cmd.entry[1]
                v == ParseValue(l1)
                sum1 == IF v.ok /\ v.end <= Len(l1) THEN Drop(l1, v.end) ELSE ""
                e == [kind |-> v.kind, a |-> v.a, b |-> v.b, canon |-> v.canon, summary |-> <<sum1>> \o Tail(cmd.entry)]
            IN  IF l1 = "" THEN Fail
                ELSE IF IsSpaceOrTab(Ch(l1, 1)) THEN Unspec     \* merges with the indentation: no verdict
                ELSE IF ~v.ok THEN Fail
                ELSE IF v.unspec \/ (v.end <= Len(l1) /\ Ch(l1, v.end) = TAB) THEN Unspec
                ELSE IF v.kind = "open" /\ t # 0 /\ OpenIdx(R[t]) # 0 THEN Fail
                ELSE [st |-> "ok", kind |-> "append", t |-> t, tord |-> tord, should |-> ShouldOf(NoCmd, cfg),
                      entries |-> {e}, exact |-> TRUE]
      [] cmd.op = "start" ->
            LET tm == TimeOf(cmd, now, cfg, tord)
                es == IF t = 0 THEN <<>> ELSE R[t].entries
                sm == SummaryOf(cmd, es, PrevRecs(R, tord))
            IN  IF tm.st # "ok" \/ sm.st # "ok" THEN Fail
                ELSE IF t # 0 /\ OpenIdx(R[t]) # 0 THEN Fail
                ELSE [st |-> "ok", kind |-> "append", t |-> t, tord |-> tord, should |-> ShouldOf(NoCmd, cfg),
                      entries |-> {[kind |-> "open", a |-> tm.off, b |-> 0, canon |-> "", summary |-> s] : s \in sm.sums},
                      exact |-> FALSE]
      [] cmd.op = "stop" ->
            LET auto == cmd.dsel # "date" /\ cmd.time = ""
                fb == t = 0 /\ auto /\ FindRec(R, tord - 1) # 0
                tt == IF fb THEN FindRec(R, tord - 1) ELSE t
                tm == TimeOf(cmd, now, cfg, tord)
                off == IF fb THEN tm.off + 1440 ELSE tm.off
            IN  IF tm.st # "ok" THEN Fail
                ELSE IF tt = 0 THEN Fail
                ELSE IF fb /\ cmd.dsel \in {"yesterday", "tomorrow"} THEN Unspec
                ELSE IF OpenIdx(R[tt]) = 0 THEN Fail
                ELSE IF ~TimeOffOK(off) THEN Fail
                ELSE IF off < R[tt].entries[OpenIdx(R[tt])].a THEN Fail
                ELSE [st |-> "ok", kind |-> "close", t |-> tt, i |-> OpenIdx(R[tt]), off |-> off, extra |-> cmd.summary]
      [] cmd.op = "switch" ->
            LET tm == TimeOf(cmd, now, cfg, tord) IN
            IF tm.st # "ok" \/ t = 0 THEN Fail
            ELSE IF OpenIdx(R[t]) = 0 THEN Fail
            ELSE IF tm.off < R[t].entries[OpenIdx(R[t])].a THEN Fail
            ELSE LET i == OpenIdx(R[t])
                     closed == [R[t].entries EXCEPT ![i] = [kind |-> "range", a |-> @.a, b |-> tm.off, canon |-> "", summary |-> @.summary]]
                     sm == SummaryOf(cmd, closed, {})
                 IN  IF sm.st # "ok" THEN Fail
                     ELSE [st |-> "ok", kind |-> "switch", t |-> t, i |-> i, off |-> tm.off,
                           entries |-> {[kind |-> "open", a |-> tm.off, b |-> 0, canon |-> "", summary |-> s] : s \in sm.sums}]
      [] cmd.op = "create" ->
            [st |-> "ok", kind |-> "create", tord |-> tord, should |-> ShouldOf(cmd, cfg), summary |-> cmd.summary]
      [] cmd.op = "pause" ->
            LET t1 == FindRec(R, now.ord)
                tt == IF t1 # 0 THEN t1 ELSE FindRec(R, now.ord - 1)
                diffs == {cmd.ticks[j] \div 60 : j \in {jj \in 1..Len(cmd.ticks) : cmd.ticks[jj] >= 0}}
                mx == IF diffs = {} THEN 0 ELSE CHOOSE d \in diffs : \A d2 \in diffs : d2 <= d
            IN  IF cmd.extend /\ cmd.summary # <<>> THEN Fail
                ELSE IF tt = 0 THEN Fail
                ELSE IF OpenIdx(R[tt]) = 0 THEN Fail
                ELSE IF cmd.extend
                     THEN IF PauseIdx(R[tt]) = 0 THEN Fail
                          ELSE [st |-> "ok", kind |-> "extend", t |-> tt, i |-> PauseIdx(R[tt]), mins |-> mx]
                ELSE LET oe == R[tt].entries[OpenIdx(R[tt])]
                         tags == IF cmd.notags THEN "" ELSE JoinStr(TagStrs(TagsOfLines(oe.summary)), " ")
                         base == IF cmd.summary = <<>> THEN <<"">> ELSE cmd.summary
                         n == Len(base)
                         lastL == RTrim(base[n] \o (IF base[n] # "" /\ tags # "" THEN " " ELSE "") \o tags)
                     IN  [st |-> "ok", kind |-> "pause", t |-> tt, mins |-> mx, summary |-> [base EXCEPT ![n] = lastL]]

(***************************************************************************)
(* Does the observed change of the data match the model's verdict?          *)
(***************************************************************************)
Sorted(R) == \A k \in 1..(Len(R) - 1) : R[k].date.ord <= R[k + 1].date.ord

EntryLike(x, e, exact) ==     \* x observed, e expected
    /\ x.kind = e.kind /\ x.a = e.a /\ x.b = e.b /\ x.summary = e.summary
    /\ exact => x.canon = e.canon
(* summaries written by pause may carry a trailing blank where an empty part was joined *)
SummaryLike(xs, es) == /\ Len(xs) = Len(es)
                       /\ \A i \in 1..Len(es) : RTrim(xs[i]) = RTrim(es[i])

SameHead(r2, r) == r2.date = r.date /\ r2.should = r.should /\ r2.summary = r.summary
OthersSame(R, R2, t) == Len(R2) = Len(R) /\ \A k \in 1..Len(R) : k # t => R2[k] = R[k]

(* the stop: entry i becomes a range ending at off; the extra summary is appended to its last line *)
ClosedLike(x, old, off, extra) ==
    /\ x.kind = "range" /\ x.a = old.a /\ x.b = off
    /\ LET n == Len(old.summary)
           e1 == IF extra = <<>> THEN "" ELSE extra[1]
           joined == IF e1 = "" THEN {old.summary[n]}
                     ELSE IF n = 1 /\ old.summary[1] = "" THEN {e1, " " \o e1}
                     ELSE {old.summary[n] \o " " \o e1}
           rest == IF extra = <<>> THEN <<>> ELSE Tail(extra)
       IN  /\ Len(x.summary) = n + Len(rest)
           /\ \A j \in 1..(n - 1) : x.summary[j] = old.summary[j]
           /\ x.summary[n] \in joined
           /\ \A j \in 1..Len(rest) : x.summary[n + j] = rest[j]

NewRecAt(R, R2, p, pred(_)) ==    \* R2 = R with one record inserted at position p satisfying pred
    /\ Len(R2) = Len(R) + 1 /\ p \in 1..Len(R2)
    /\ \A k \in 1..(p - 1) : R2[k] = R[k]
    /\ \A k \in p..Len(R) : R2[k + 1] = R[k]
    /\ pred(R2[p])
    /\ Sorted(R) => Sorted(R2)

EffectOK(m, R, R2) ==
    CASE m.kind = "append" ->
            IF m.t # 0
            THEN /\ OthersSame(R, R2, m.t) /\ SameHead(R2[m.t], R[m.t])
                 /\ Len(R2[m.t].entries) = Len(R[m.t].entries) + 1
                 /\ \A i \in 1..Len(R[m.t].entries) : R2[m.t].entries[i] = R[m.t].entries[i]
                 /\ \E e \in m.entries : EntryLike(R2[m.t].entries[Len(R2[m.t].entries)], e, m.exact)
            ELSE \E p \in 1..(Len(R) + 1) :
                    LET pred(r) == /\ r.date.ord = m.tord /\ r.should = m.should /\ r.summary = <<>>
                                   /\ Len(r.entries) = 1
                                   /\ \E e \in m.entries : EntryLike(r.entries[1], e, m.exact)
                    IN  NewRecAt(R, R2, p, pred)
      [] m.kind = "create" ->
            \E p \in 1..(Len(R) + 1) :
                LET pred(r) == r.date.ord = m.tord /\ r.should = m.should /\ r.summary = m.summary /\ r.entries = <<>>
                IN  NewRecAt(R, R2, p, pred)
      [] m.kind = "close" ->
            /\ OthersSame(R, R2, m.t) /\ SameHead(R2[m.t], R[m.t])
            /\ Len(R2[m.t].entries) = Len(R[m.t].entries)
            /\ \A i \in 1..Len(R[m.t].entries) : i # m.i => R2[m.t].entries[i] = R[m.t].entries[i]
            /\ ClosedLike(R2[m.t].entries[m.i], R[m.t].entries[m.i], m.off, m.extra)
      [] m.kind = "switch" ->
            /\ OthersSame(R, R2, m.t) /\ SameHead(R2[m.t], R[m.t])
            /\ Len(R2[m.t].entries) = Len(R[m.t].entries) + 1
            /\ \A i \in 1..Len(R[m.t].entries) : i # m.i => R2[m.t].entries[i] = R[m.t].entries[i]
            /\ ClosedLike(R2[m.t].entries[m.i], R[m.t].entries[m.i], m.off, <<>>)
            /\ \E e \in m.entries : EntryLike(R2[m.t].entries[Len(R2[m.t].entries)], e, FALSE)
      [] m.kind = "pause" ->
            /\ OthersSame(R, R2, m.t) /\ SameHead(R2[m.t], R[m.t])
            /\ Len(R2[m.t].entries) = Len(R[m.t].entries) + 1
            /\ \A i \in 1..Len(R[m.t].entries) : R2[m.t].entries[i] = R[m.t].entries[i]
            /\ LET x == R2[m.t].entries[Len(R2[m.t].entries)] IN
               x.kind = "dur" /\ x.a = 0 - m.mins /\ SummaryLike(x.summary, m.summary)
      [] m.kind = "extend" ->
            /\ OthersSame(R, R2, m.t) /\ SameHead(R2[m.t], R[m.t])
            /\ Len(R2[m.t].entries) = Len(R[m.t].entries)
            /\ \A i \in 1..Len(R[m.t].entries) : i # m.i => R2[m.t].entries[i] = R[m.t].entries[i]
            /\ LET x == R2[m.t].entries[m.i]  old == R[m.t].entries[m.i] IN
               x.kind = "dur" /\ x.a = old.a - m.mins /\ x.summary = old.summary
               /\ (m.mins = 0 => x.canon = old.canon)
=============================================================================
